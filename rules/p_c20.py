"""C20 — deposit / refund helpers agree with the ledger table and with the builder (E7 tables + mustflow + must-read)."""
import json

import common
import e7_tables as e7
import hirq as H
import mustflow

EXPLANATION = (
    "Table agreement decided from the type-checked HIR. The per-certificate deposit and refund tables are extracted from the "
    "`match` over CertificateEnum in the four functions that define them (helper: internal_get_deposit, "
    "internal_get_implicit_input; builder: CertificatesBuilder::get_certificates_deposit / get_certificates_refund): for every "
    "arm, the set of operands handed to checked_add together with the `if let Some(..)` branch they sit in. The four tables must "
    "be pairwise equal and equal the Conway ledger table in tables/c20_ledger.json; wildcard arms must add nothing; every add "
    "must be a checked_add on the accumulator (no raw operator, no other receiver). A flow-sensitive must-flow analysis on MIR "
    "then shows that on every success path the value returned by get_deposit / get_implicit_input (helper and builder) is derived "
    "from each term (certificate deposits, proposal deposits, withdrawals, refunds), and a must-read rule shows the helper reads "
    "TransactionBody.voting_proposals / withdrawals / certs. Overflow-to-error: no function in the set contains an unchecked integer "
    "operator (MIR overflow asserts) and every checked_add error is propagated."
)


from ruleutil import find_fn, fields_read, run_mustflow


def check(rep, F, tier, replay=None):
    spec = common.load_table("c20_ledger.json")
    rep.rule("T-cert", "per-certificate table of a deposit/refund function equals the ledger table (variants, operands, branch of the optional explicit amount); wildcard adds nothing; adds are checked_add on the accumulator")
    rep.rule("T-sibling", "helper table == builder table")
    sources = [
        ("helper deposit", "utils::internal_get_deposit", "deposit", ["pool_deposit", "key_deposit"], {"acc"}),
        ("builder deposit", "CertificatesBuilder::get_certificates_deposit", "deposit", ["pool_deposit", "key_deposit"], {"deposit"}),
        ("helper refund", "utils::internal_get_implicit_input", "refund", ["pool_deposit", "key_deposit"], {"acc", "withdrawal_sum"}),
        ("builder refund", "CertificatesBuilder::get_certificates_refund", "refund", ["pool_deposit", "key_deposit"], {"refund"}),
    ]
    tables = {}
    for label, key, which, params, accs in sources:
        fid = find_fn(rep, F, key)
        if fid is None:
            continue
        hir = F.hir.get(fid)
        if hir is None:
            rep.lost("no HIR for %s" % key)
            continue
        table, wild, errs, n = e7.cert_table(F, hir, "CertificateEnum", params, accs)
        if any(e.startswith("SHAPE:") for e in errs):
            rep.lost("%s: %s" % (key, [e for e in errs if e.startswith("SHAPE:")][0]))
            continue
        if n != 1:
            rep.lost("%s: expected exactly one match over CertificateEnum in %s, found %d" % (label, key, n))
            continue
        tables[label] = table
        want = spec[which]
        rep.inst("T-cert", len(set(want) | set(table)) + 1)
        rep.sample({"function": key, "extracted_table": table})
        for v in sorted(set(want) | set(table)):
            a, b = sorted(table.get(v, [])), sorted(want.get(v, []))
            if a != b:
                if not a:
                    msg = "%s (%s) has no %s term for certificate kind %s; the ledger charges %s" % (key, label, which, v, b)
                elif not b:
                    msg = "%s (%s) counts %s for certificate kind %s; the ledger has no in-transaction %s for it" % (key, label, a, v, which)
                else:
                    msg = "%s (%s): certificate kind %s adds %s, ledger table says %s" % (key, label, v, a, b)
                rep.violation("T-cert", "%s|%s|%s" % (key, which, v), msg, {"function": key, "file": hir["file"], "variant": v, "extracted": a, "ledger": b})
        if wild:
            rep.violation("T-cert", "%s|%s|_" % (key, which), "%s: the wildcard arm adds %s" % (key, wild), {"function": key})
        for e in errs:
            rep.violation("T-cert", "%s|%s|discipline|%s" % (key, which, e.split(" (line")[0]), "%s: %s" % (key, e), {"function": key})
    for a, b in (("helper deposit", "builder deposit"), ("helper refund", "builder refund")):
        if a in tables and b in tables:
            rep.inst("T-sibling")
            if tables[a] != tables[b]:
                rep.violation("T-sibling", "%s-vs-%s" % (a, b), "%s table %s differs from %s table %s" % (a, tables[a], b, tables[b]), {})
    # proposal deposits: fold over proposals adds `.deposit`
    rep.rule("T-proposal", "proposal deposit folds add the proposal's `deposit` with checked_add")
    for key, accs in (("VotingProposalBuilder::get_total_deposit", {"acc"}), ("utils::get_deposit", {"acc", "certificate_deposit"})):
        fid = find_fn(rep, F, key)
        if fid is None:
            continue
        ops, errs = [], []
        e7.operand_env_walk(F.hir[fid]["body"], {}, [], ops, errs, set(accs) | e7.acc_names_of(F.hir[fid]))
        rep.inst("T-proposal")
        if not any(o.split("|")[0].endswith((".deposit", ".deposit()")) for o in ops):
            rep.violation("T-proposal", key, "%s does not add a proposal deposit (operands seen: %s)" % (key, ops), {"function": key})
        for e in errs:
            rep.violation("T-proposal", "%s|discipline|%s" % (key, e.split(" (line")[0]), "%s: %s" % (key, e), {"function": key})
    # withdrawals folded with checked_add
    rep.rule("T-withdrawals", "withdrawal totals are folded with checked_add over the withdrawal amounts")
    for key in ("utils::internal_get_implicit_input", "WithdrawalsBuilder::get_total_withdrawals"):
        fid = find_fn(rep, F, key)
        if fid is None:
            continue
        ops, errs = [], []
        e7.operand_env_walk(F.hir[fid]["body"], {}, [], ops, errs, {"acc", "withdrawal_sum", "total", "refund"} | e7.acc_names_of(F.hir[fid]))
        rep.inst("T-withdrawals")
        if not ops:
            rep.violation("T-withdrawals", key, "%s contains no checked_add" % key, {"function": key})
    # must-flow of every term to the returned total
    mf = common.load_table("mustflow.json")["entries"]
    run_mustflow(rep, F, [e for e in mf if "C20" in e["props"]])
    # must-read of the body fields by the public helpers
    rep.rule("R-read", "the stand-alone helper (transitively) reads the transaction-body field")
    for key, fields in (("utils::get_deposit", ["certs", "voting_proposals"]), ("utils::get_implicit_input", ["withdrawals", "certs"])):
        fid = find_fn(rep, F, key)
        if fid is None:
            continue
        got = fields_read(F, fid)
        for f in fields:
            rep.inst("R-read")
            if ("protocol_types::transaction_body::TransactionBody", f) not in got:
                rep.violation("R-read", "%s|TransactionBody.%s" % (key, f), "%s never reads TransactionBody.%s, so what the body holds there is not reflected in the reported figure" % (key, f), {"function": key, "field": f})
    # overflow-to-error: no unchecked integer operator in the table functions
    rep.rule("A-nochecked", "no compiler overflow/division assert (i.e. no raw + - * /) in the deposit/refund functions or their closures")
    keys = [s[1] for s in sources] + ["utils::get_deposit", "utils::get_implicit_input", "VotingProposalBuilder::get_total_deposit", "TransactionBuilder::get_deposit", "TransactionBuilder::get_implicit_input", "WithdrawalsBuilder::get_total_withdrawals"]
    for key in keys:
        for fid in F.by_key(key):
            for sub in [fid] + [c for c in F.fns if c.startswith(fid + "::{closure")]:
                fn = F.fns[sub]
                rep.inst("A-nochecked")
                for bb in fn["bbs"]:
                    t = bb["t"]
                    if t[1] == "assert" and t[4].split(":")[0] in ("Overflow", "OverflowNeg", "DivisionByZero", "RemainderByZero") and not bb["c"]:
                        rep.violation("A-nochecked", "%s|%s" % (F.key(sub), t[4]), "%s uses an unchecked integer operator (%s) on an amount" % (F.key(sub), t[4]), {"function": sub})
    rep.floor("certificate tables extracted", 4, len(tables))
    from ruleutil import ord_eq_rule
    ord_eq_rule(rep, F)
    # DEP-verbatim: an explicit deposit / refund is stored as given
    import fieldflow as ff_
    rep.rule("DEP-verbatim", "every constructor of a certificate that carries an explicit deposit / refund (a field `coin` or `deposit`) stores the amount it was given unchanged: the stored operand passes through no filtering or mapping call (Option::filter / map / and_then / take_if, is_zero-driven choices) - an explicit amount of 0 is an amount, not 'absent' (absent means: charge the key_deposit parameter)")
    n_dv = 0
    for adt_, a_ in sorted(F.adts.items()):
        if "protocol_types::certificates::" not in adt_ or a_["kind"] != "struct":
            continue
        idxs_ = [(i_, f_["name"]) for i_, f_ in enumerate(a_["variants"][0]["fields"]) if f_["name"] in ("coin", "deposit") and ("BigNum" in f_["ty"] or "Coin" in f_["ty"])]
        if not idxs_:
            continue
        for fid_, fn_ in F.fns.items():
            if "/tests/" in fn_["file"] or F.is_derived(fid_) or "/serialization/" in fn_["file"] or "Deserialize" in (fn_.get("impl_trait") or ""):
                continue
            org_ = None
            for bb_ in fn_["bbs"]:
                if bb_["c"]:
                    continue
                for st_ in bb_["st"]:
                    if st_[1] == "=" and st_[3][0] == "agg" and st_[3][2] == adt_:
                        org_ = org_ or ff_.Origins(F, fid_)
                        for i_, nm_ in idxs_:
                            if i_ >= len(st_[3][4]):
                                continue
                            n_dv += 1
                            rep.inst("DEP-verbatim")
                            o_ = org_.of_operand(st_[3][4][i_])
                            badc = sorted({x.split("@")[0][5:] for x in o_ if x.startswith("call:") and x.split("@")[0].rsplit("::", 1)[-1] in ("filter", "map", "and_then", "take_if", "xor", "or", "unwrap_or", "unwrap_or_default", "is_zero", "then", "then_some")})
                            if badc and any(x.startswith("arg:") for x in o_):
                                rep.violation("DEP-verbatim", "%s|%s" % (F.key(fid_), nm_), "%s stores the explicit amount `%s` after passing it through %s: an explicit refund / deposit of 0 becomes 'no amount', the certificate turns into its legacy form (different tag) and both get_implicit_input / get_deposit helpers and the builder then charge the key_deposit parameter instead of 0" % (F.key(fid_), nm_, ", ".join(b.rsplit("::", 2)[-2] + "::" + b.rsplit("::", 1)[-1] for b in badc)), {})
    rep.floor("constructions of certificates with an explicit amount", 6, n_dv)
    return rep.finish(EXPLANATION, ["the ledger table in tables/c20_ledger.json is a correct transcription of the Conway rules", "the explicit-amount fields are named `coin`/`deposit` (resolved field names, checked by the compiler)"], ["rustc HIR/typeck + MIR (csl-facts)", "tables/c20_ledger.json", "tables/mustflow.json"])


