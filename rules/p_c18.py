"""C18 — witness requirements are complete, unique and sized exactly (E4 coverage matrix, E7 signer tables, must-flow, container rules)."""
import re

import common
import hirq as H
import facts
import fieldflow as ff
import e7_tables as e7
import wildarms
import totaliter
import bodyorigins
from ruleutil import find_fn, fields_read, run_mustflow

TB = "builders::tx_builder::TransactionBuilder"

EXPLANATION = (
    "Completeness of witness collection is a coverage question over a finite set of sources, decided structurally: (MATRIX) each "
    "collector - signer count, mock transaction, native / Plutus script collection, script-data hash, emitted witness set, reference "
    "inputs, reference-script size, Plutus detection, emitted body - (transitively) reads every builder field of the audited matrix; "
    "(MF) the signer count is data-derived from every source on every path; (CERT) the per-certificate required-key table equals the "
    "ledger's witsVKeyNeeded and is wildcard-free over all 17 certificate variants; (COLLECT) each per-source signer collector unions "
    "credential keys, native-script signers and signers declared on Plutus sources (sibling agreement); (WILD) no match with a "
    "wildcard arm in the script/witness plumbing lost an explicitly handled variant (e.g. n-of-k native scripts in signer extraction); "
    "(BOOT) the mock transaction takes bootstrap witnesses from inputs and collateral; (DEDUP) de-duplication of datums and scripts "
    "uses ordered containers - no hash container keyed by PlutusData / PlutusScript, whose Hash/Eq ignore the original bytes; "
    "(BODY) the emitted body's fields come from the audited producers. Not decided: the size inequality between full_size and the "
    "really signed transaction (runtime quantity)."
)


def closure(F, start, depth):
    seen = {start}
    frontier = [start]
    for _ in range(depth):
        nxt = []
        for f in frontier:
            if f not in F.fns:
                continue
            subs = [f] + [c for c in F.closures_of.get(f, [])]
            for sub in subs:
                for c in F.calls(sub):
                    if c.to and c.to not in seen:
                        seen.add(c.to)
                        nxt.append(c.to)
        frontier = nxt
    return seen


def check(rep, F, tier, replay=None):
    # MATRIX
    mat = common.load_table("c18_matrix.json")["rows"]
    rep.rule("MATRIX", "function reads (directly or via local callees to depth 3) the builder field")
    for key, row in mat.items():
        fid = find_fn(rep, F, key)
        if not fid:
            continue
        got = fields_read(F, fid, depth=3)
        for f in row["must"]:
            rep.inst("MATRIX")
            if (TB, f) not in got:
                rep.violation("MATRIX", "%s|%s" % (key, f), "%s no longer reads TransactionBuilder.%s: script uses / signers / data coming from that source are left out" % (key, f), {"function": key, "field": f})
    rep.sample({"rule": "MATRIX", "rows": len(mat)})
    # MF signer union
    mf = common.load_table("mustflow.json")["entries"]
    run_mustflow(rep, F, [e for e in mf if "C18" in e["props"]])
    # CERT table
    rep.rule("CERT", "witness_keys_for_cert: per-variant required key sources equal the ledger table; no wildcard arm; all CertificateEnum variants named")
    fid = find_fn(rep, F, "builders::certificates_builder::witness_keys_for_cert")
    if fid:
        spec = common.load_table("c18_cert_signers.json")["table"]
        table, wild, n, has_wild = e7.variant_table(F.hir[fid], "CertificateEnum", {"add", "extend", "add_move", "extend_move"}, {"set"})
        rep.inst("CERT")
        if n != 1:
            rep.lost("witness_keys_for_cert: expected one match over CertificateEnum, found %d" % n)
        else:
            if has_wild:
                rep.violation("CERT", "wildcard", "witness_keys_for_cert has a wildcard arm: a new or dropped certificate kind would silently require no key witness", {})
            variants = [v["name"] for v in F.adts["protocol_types::certificates::certificate::CertificateEnum"]["variants"]]
            for v in variants:
                rep.inst("CERT")
                a, b = table.get(v), spec.get(v)
                if a is None and not has_wild:
                    rep.lost("variant %s not named in witness_keys_for_cert" % v)
                elif b is None:
                    rep.lost("variant %s missing from tables/c18_cert_signers.json" % v)
                elif sorted(a or []) != sorted(b):
                    rep.violation("CERT", "witness_keys_for_cert|%s" % v, "witness_keys_for_cert: certificate kind %s requires %s, the ledger requires %s" % (v, a, b), {"variant": v})
            rep.sample({"rule": "CERT", "variants": len(variants)})
    # COLLECT: per-source collectors
    rep.rule("COLLECT", "each per-source signer collector unions the audited signer sources (callee set)")
    collectors = common.load_table("c18_collectors.json")["collectors"]
    for key, want in collectors.items():
        fid = find_fn(rep, F, key)
        if not fid:
            continue
        callees = set()
        for sub in [fid] + [c for c in F.fns if c.startswith(fid + "::{closure")]:
            for c in F.calls(sub):
                if c.to:
                    callees.add(c.to)
        for w in want["must_call"]:
            rep.inst("COLLECT")
            if not any(x.endswith(w) for x in callees):
                rep.violation("COLLECT", "%s|%s" % (key, w), "%s no longer calls %s: %s" % (key, w, want.get("what", {}).get(w, "that kind of signer is no longer counted")), {"function": key})
    # SIGNER matrix: declared signers of every source kind are reachable from the signer count
    rep.rule("SIGNER", "for each builder field that can hold a native / Plutus script source, the callees of count_needed_vkeys fed by that field reach (depth 3) the accessor of signers declared on such a source")
    srcs = common.load_table("c18_collectors.json")["sources"]
    fid = find_fn(rep, F, "builders::tx_builder::count_needed_vkeys")
    if fid:
        org = ff.Origins(F, fid)
        by_field = {}
        for c in F.calls(fid):
            if not c.to or not c.info.get("local"):
                continue
            fl = set()
            for a in c.args:
                for o in org.of_operand(a):
                    if o.startswith("field:" + TB + "."):
                        fl.add(o.split(".")[-1])
            for f in fl:
                by_field.setdefault(f, set()).add(c.to)
        for f, kinds in srcs["fields"].items():
            reach = set()
            for start in by_field.get(f, ()):
                reach |= closure(F, start, 3)
            for k in kinds:
                rep.inst("SIGNER")
                acc = srcs["accessors"][k]
                if not any(F.key(x).endswith(acc) or x.endswith(acc) for x in reach):
                    rep.violation("SIGNER", "%s|%s-declared" % (f, k), "count_needed_vkeys never reaches %s for TransactionBuilder.%s: signers declared on a %s script source there are not counted, so size and fee are under-estimated by one key witness per such signer" % (acc, f, k), {"field": f, "kind": k, "callees_fed_by_field": sorted(by_field.get(f, ()))})
    # WILD
    wildarms.check(rep, F, "C18")
    totaliter.check(rep, F, "C18")
    # BOOT
    rep.rule("BOOT", "fake_full_tx collects bootstrap addresses from both inputs and collateral")
    fid = find_fn(rep, F, "builders::tx_builder::fake_full_tx")
    if fid:
        org = ff.Origins(F, fid)
        srcs = set()
        for c in F.calls(fid):
            if (c.to or "").endswith("get_bootstraps"):
                for a in c.args:
                    for o in org.of_operand(a):
                        if o.startswith("field:" + TB + "."):
                            srcs.add(o.split(".")[-1])
        for f in ("inputs", "collateral"):
            rep.inst("BOOT")
            if f not in srcs:
                rep.violation("BOOT", "fake_full_tx|bootstraps|%s" % f, "fake_full_tx does not take bootstrap witnesses from TransactionBuilder.%s: a Byron-address %s is signed with a bootstrap witness the size/fee estimate does not contain" % (f, "input" if f == "inputs" else "collateral input"), {})
    # DEDUP containers
    rep.rule("DEDUP", "no HashSet/HashMap/LinkedHashMap keyed by PlutusData or PlutusScript in the builders and witness-set code (their Hash/Eq ignore original bytes / would merge distinct encodings)")
    pat = re.compile(r"(HashSet|HashMap|LinkedHashMap)<(?:&(?:'\w+ )?(?:mut )?)?(?:std::rc::Rc<)?protocol_types::plutus::(plutus_data::PlutusData|plutus_script::PlutusScript)\b")
    nloc = 0
    for fid, fn in F.fns.items():
        if F.is_derived(fid):
            continue
        if not (fn["file"].startswith("src/builders/") or "/witnesses/" in fn["file"]):
            continue  # PlutusMap (a ledger data type) is legitimately keyed by PlutusData; the rule is about witness de-duplication
        for ty in fn["locals"]:
            nloc += 1
            if pat.search(ty):
                rep.violation("DEDUP", "%s|%s" % (F.key(fid), pat.search(ty).group(0)), "%s uses a hash container keyed by %s: two datums/scripts equal in value but different in bytes collapse to one, so a required datum can go missing" % (F.key(fid), pat.search(ty).group(2)), {"function": fid, "type": ty})
                break
    rep.inst("DEDUP", 1)
    rep.extra["locals_scanned"] = nloc
    # sibling: PlutusList methods used by calc_script_data_hash == get_witness_set (C09 shares this)
    rep.rule("SIB-datums", "calc_script_data_hash and get_witness_set merge extra datums through the same PlutusList operations")
    sets = {}
    for key in ("TransactionBuilder::calc_script_data_hash", "TransactionBuilder::get_witness_set"):
        fid = find_fn(rep, F, key)
        if fid:
            sets[key] = sorted({c.to.rsplit("::", 1)[1] for c in F.calls(fid) if c.to and "plutus_data::PlutusList::" in c.to})
    if len(sets) == 2:
        rep.inst("SIB-datums")
        a, b = list(sets.values())
        if a != b:
            rep.violation("SIB-datums", "plutuslist-ops", "calc_script_data_hash uses PlutusList::%s but get_witness_set uses PlutusList::%s: the hashed datum list and the emitted one can differ" % (a, b), sets)
    # BODY
    bodyorigins.check(rep, F, only=["inputs", "collateral", "required_signers", "reference_inputs", "certs", "withdrawals", "voting_procedures", "voting_proposals", "mint"])
    # DEDUP-prim: what PlutusWitnesses::collect treats as "the same" script / datum / redeemer
    rep.rule("DEDUP-prim", "PlutusWitnesses::collect de-duplicates scripts, datums and redeemers with an ordered-set insert each (for datums the order includes the preserved original bytes: two datums equal as values but with different bytes have different hashes and are both required); no `contains` / `any` / `position` based test")
    cid = find_fn(rep, F, "PlutusWitnesses::collect")
    if cid:
        ins = []
        other = []
        for sub in [cid] + [c for c in F.fns if c.startswith(cid + "::{closure")]:
            for c in F.calls(sub):
                to = c.to or ""
                ga = F.fns[sub]["bbs"][c.bb]["t"][2].get("ga") or ""
                if to.endswith("BTreeSet::<T, A>::insert"):
                    ins.append(ga)
                elif to.rsplit("::", 1)[-1] in ("contains", "any", "position", "find", "contains_key", "dedup", "dedup_by") or to.endswith("HashSet::<T, S>::insert"):
                    other.append(to)
        rep.inst("DEDUP-prim", 3)
        for what, needle in (("scripts", "PlutusScript"), ("datums", "PlutusData"), ("redeemers", "Redeemer")):
            if not any(needle in g for g in ins):
                rep.violation("DEDUP-prim", "collect|%s" % what, "PlutusWitnesses::collect no longer de-duplicates %s with an ordered-set insert: required witnesses can be dropped (equal by a weaker test) or repeated" % what, {})
        if other:
            rep.violation("DEDUP-prim", "collect|weak|%s" % ",".join(sorted(set(H.short(o) for o in other))), "PlutusWitnesses::collect tests membership with %s: a weaker equality than the witness set's own (datums with equal value but different preserved bytes would be merged although both hashes are required)" % sorted(set(H.short(o) for o in other)), {})
    # WIT-stored: a script witness handed to the voting builder is the one that is used
    import mustpass as mp
    rep.rule("WIT-stored", "VotingBuilder::add_with_plutus_witness / add_with_native_script store the witness they are given into the voter's entry on every Ok path (a field store that dominates the Ok return), not only as the default of an or_insert that is skipped when the voter already has an entry")
    VV = [a for a in F.adts if a.endswith("voting_builder::VoterVotes")]
    for key in ("VotingBuilder::add_with_plutus_witness", "VotingBuilder::add_with_native_script"):
        fid_ = find_fn(rep, F, key)
        if not fid_ or len(VV) != 1:
            continue
        rep.inst("WIT-stored")
        fn_ = F.fns[fid_]
        ffs_ = ff.FnFields(F, fid_)
        org_ = ff.Origins(F, fid_)
        st_ = ffs_.stores_to(VV[0], "script_witness")
        oks = [b for b, k, l in mp.success_stores(F, fid_) if k == "ok"]
        good = False
        for s_ in st_:
            rv = s_[4]
            o_ = set()
            if isinstance(rv, list) and rv[0] == "use":
                o_ = org_.of_operand(rv[1])
            elif isinstance(rv, list) and rv[0] == "agg":
                for op_ in rv[4]:
                    o_ |= org_.of_operand(op_)
            if "arg:5" in o_ and all(mp.dominated_by(fn_, b, s_[2]) for b in oks):
                good = True
        if not good:
            rep.violation("WIT-stored", key, "%s hands its witness only to `entry(voter).or_insert(..)`: when the voter already has an entry (a second vote of the same voter) the new witness - its script, datum, redeemer, declared signers, reference input - is silently dropped while the call returns Ok" % key, {})
    from ruleutil import datum_rules
    datum_rules(rep, F)
    # SIGNER-set: the signer / witness sets the estimate counts keep their vector and membership index in step
    import p_c16 as _c16
    sets_ = _c16.discover_sets(F)
    elems_ = {v["elem"] for v in sets_.values() if v["elem"].rsplit("::", 1)[-1] in ("Ed25519KeyHash", "Vkeywitness", "BootstrapWitness")}
    if len(elems_) < 3:
        rep.lost("signer / witness set types not found (%s)" % sorted(elems_))
    else:
        np_ = _c16.set_push_rules(rep, F, sets_, elems_)  # SET-push / SET-mut / SET-build: len() of these sets is what count_needed_vkeys and the fake witness set are sized from
        rep.floor("guarded pushes into signer / witness set vectors", 4, np_)
    # BOOT-set: one fake bootstrap witness per distinct Byron address over inputs AND collateral
    rep.rule("BOOT-set", "fake_full_tx merges the Byron addresses of inputs and collateral in an ordered set before counting / creating fake bootstrap witnesses (an address used for both is witnessed once)")
    fid = find_fn(rep, F, "builders::tx_builder::fake_full_tx")
    if fid:
        fn = F.fns[fid]
        org = ff.Origins(F, fid)
        n_b = 0
        badc = []
        has_len = has_ext = False
        for c in F.calls(fid):
            to = c.to or ""
            if to.endswith("get_bootstraps"):
                continue
            t = fn["bbs"][c.bb]["t"]
            o = set()
            for a in t[3]:
                o |= org.of_operand(a)
            if not any("get_bootstraps@" in x for x in o):
                continue
            n_b += 1
            if "BTreeSet" in to and (to.endswith("::len") or to.endswith("::is_empty") or to.endswith("::into_iter") or to.endswith("::iter")):
                has_len = True  # the merged collection that is counted / walked is the ordered set
            if "BTreeSet" in to and to.endswith("::extend"):
                has_ext = True
            if ("Vec<" in to or "vec::Vec" in to or "Chain" in to or to.endswith("Iterator::collect") or to.endswith("Iterator::chain")) and "ByronAddress" not in to:
                badc.append(to)
        rep.inst("BOOT-set")
        if not (has_len and has_ext) or badc:
            rep.violation("BOOT-set", "fake_full_tx|%s" % ("no-set" if not (has_len and has_ext) else "vec"), "fake_full_tx no longer merges the Byron addresses of inputs and collateral in a BTreeSet (calls on the merged collection: %s): an address funding both a regular and a collateral input gets two fake witnesses, the predicted size exceeds the signed size by more than one key witness" % (sorted(set(H.short(b) for b in badc)) or "no BTreeSet::extend / len"), {})
        rep.floor("calls consuming the collected Byron addresses in fake_full_tx", 4, n_b)
    from ruleutil import ref_size_pass_rule
    ref_size_pass_rule(rep, F)
    from ruleutil import cert_cred_rule
    cert_cred_rule(rep, F)
    from ruleutil import boot_attr_rule
    boot_attr_rule(rep, F)
    # WIT-last: a stored script witness is not wiped by a later witness-less registration in the same call
    from collections import deque as _dq
    rep.rule("WIT-last", "in every TxInputsBuilder registration function, no call that (re-)registers an input with an empty witness (reaches insert_input_with_empty_witness without storing a witness) can execute after a call that stored the witness (reaches insert_input_with_witness): the empty registration comes first, the witness last - otherwise the script, its signers and its reference input vanish while the input stays a script input")
    tib_fns = {fid_: fn_ for fid_, fn_ in F.fns.items() if "tx_inputs_builder::TxInputsBuilder::" in fid_ and "/tests/" not in fn_["file"] and "::{closure" not in fid_}

    def reach_set(target_suffix):
        out = {f_ for f_ in tib_fns if f_.endswith(target_suffix)}
        changed = True
        while changed:
            changed = False
            for f_ in tib_fns:
                if f_ in out:
                    continue
                if any((c.to or "") in out for c in F.calls(f_)):
                    out.add(f_)
                    changed = True
        return out
    W_ = reach_set("::insert_input_with_witness")
    E_ = reach_set("::insert_input_with_empty_witness")
    if not W_ or not E_:
        rep.lost("witness registration helpers of TxInputsBuilder not found")
    n_wl = 0
    for fid_, fn_ in sorted(tib_fns.items()):
        cs_ = F.calls(fid_)
        w_sites = [c for c in cs_ if (c.to or "") in W_]
        e_only = [c for c in cs_ if (c.to or "") in E_ and (c.to or "") not in W_]
        if not w_sites or not e_only:
            continue
        n_wl += 1
        rep.inst("WIT-last")
        succ_ = {i_: [x_ for x_ in mp._succs(fn_, i_) if x_ is not None and not fn_["bbs"][x_]["c"]] for i_ in range(len(fn_["bbs"])) if not fn_["bbs"][i_]["c"]}
        for w_ in w_sites:
            dq, seen_ = _dq(succ_.get(w_.bb, [])), set(succ_.get(w_.bb, []))
            hit = None
            while dq and hit is None:
                x_ = dq.popleft()
                for e_ in e_only:
                    if e_.bb == x_:
                        hit = e_
                for y_ in succ_.get(x_, []):
                    if y_ not in seen_:
                        seen_.add(y_)
                        dq.append(y_)
            if hit is not None:
                rep.violation("WIT-last", F.key(fid_), "%s stores a script witness (through %s) and can afterwards call %s, which registers the same input again with an empty witness: the native script that locks a UTxO carrying a reference script is missing from the witness set and its signers are not counted (predicted size 233, signed 435)" % (F.key(fid_), (w_.to or "").rsplit("::", 1)[-1], (hit.to or "").rsplit("::", 1)[-1]), {})
                break
    rep.floor("registration functions ordering empty and witnessed registration", 3, n_wl)
    from ruleutil import signer_amount_rule
    signer_amount_rule(rep, F)
    # SIGNERS-explicit: an explicitly given signer set is stored as given
    rep.rule("SIGNERS-explicit", "the set_required_signers setters of the script sources (NativeScriptSourceEnum, PlutusScriptSource) store Some(clone of the argument) - an Option::Some aggregate whose payload is the cloned parameter - and call no conversion that can turn the set into None (to_option, filter, then ...): for an inline native script None means `every key hash inside the script signs`, so collapsing an explicitly empty set to None makes count_needed_vkeys count the script's keys (one surplus 101-byte fake witness per key for a script that is satisfiable without signatures)")
    n_se = 0
    for fid__, fn__ in F.fns.items():
        if fn__["name"] != "set_required_signers" or "script_structs" not in fn__["file"] or F.is_derived(fid__):
            continue
        calls__ = [c.to or "" for c in F.calls(fid__)]
        if any(t.endswith("::set_required_signers") for t in calls__):
            continue  # a forwarding wrapper
        n_se += 1
        rep.inst("SIGNERS-explicit")
        somes__ = [st for bb in fn__["bbs"] if not bb["c"] for st in bb["st"] if st[1] == "=" and st[3][0] == "agg" and str(st[3][2]).endswith("option::Option") and st[3][3] == "Some"]
        conv__ = [t for t in calls__ if re.search(r"(::to_option|Option::<T>::(filter|take_if|xor|and_then|then|then_some)|bool::then|bool::then_some)$", t)]
        clones__ = [t for t in calls__ if t.endswith("Ed25519KeyHashes as std::clone::Clone>::clone")]
        if conv__ or not somes__ or len(somes__) != len(clones__):
            rep.violation("SIGNERS-explicit", F.key(fid__), "%s does not store its argument as Some(clone) on every arm (Some aggregates: %d, clones: %d, converting calls: %s): an explicitly empty signer set becomes None, which for an inline native script means `all key hashes of the script` - the size / fee estimate then counts signers the caller excluded" % (F.key(fid__), len(somes__), len(clones__), [H.short(x) for x in conv__]), {})
    rep.floor("script-source signer setters", 2, n_se)
    return rep.finish(
        EXPLANATION,
        ["tables/c18_cert_signers.json transcribes the ledger's required-key rules", "fake witnesses have real sizes (fakes.rs)", "Ed25519KeyHashes de-duplicates (C16)"],
        ["rustc MIR/HIR (csl-facts)", "tables/c18_matrix.json", "tables/c18_cert_signers.json", "tables/c18_collectors.json", "tables/wildarms.json", "tables/body_origins.json"],
    )
