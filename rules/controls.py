"""Sensitivity controls (thorough tier): every kept property-breaking change for a property (/verif/seeded/*/patch.diff) is applied
to a scratch COPY of /repo's current crate (outside /repo and /verif, removed afterwards), the same static check is run on the copy,
and it must report a VIOLATION.  A control that no longer applies to the current source is recorded as not applicable; a control
that applies and is not reported means the checker has lost its teeth: CHECKER-BROKEN (exit 2), never a pass.
Nothing is executed from the analysed crate; the copy is only compiled by the fact driver (cargo check)."""
import json
import os
import shutil
import subprocess
import tempfile
from pathlib import Path

VERIF = Path(__file__).resolve().parent.parent


def seeds_for(pid):
    out = []
    root = VERIF / "seeded"
    if not root.exists():
        return out
    for d in sorted(root.iterdir()):
        if (d / "patch.diff").exists() and (d / "meta.json").exists():
            try:
                meta = json.loads((d / "meta.json").read_text())
            except ValueError:
                continue
            if meta.get("property") == pid:
                out.append((d.name, d / "patch.diff", meta))
    return out


def run_controls(pid, repo="/repo"):
    results = []
    for name, patch, meta in seeds_for(pid):
        scratch = Path(tempfile.mkdtemp(prefix="csl-ctl-%s-" % name))
        try:
            subprocess.check_call(["rsync", "-a", "--exclude", "target", "--exclude", ".git", str(Path(repo) / "rust"), str(scratch) + "/"])
            a = subprocess.run(["git", "apply", "--whitespace=nowarn", str(patch)], cwd=str(scratch), stdout=subprocess.PIPE, stderr=subprocess.STDOUT, text=True)
            if a.returncode != 0:
                results.append({"control": name, "status": "not-applicable", "why": "patch no longer applies to the current source: " + a.stdout.strip()[:160]})
                continue
            env = dict(os.environ, CSL_REPO=str(scratch), VERIF_OUT_DIR=str(scratch / "verif-out"), VERIF_TIER="quick", CSL_THOROUGH_COLD="0")
            r = subprocess.run(["./check", pid, "--tier", "quick"], cwd=str(VERIF), env=env, stdout=subprocess.PIPE, stderr=subprocess.STDOUT, text=True)
            keys = [l.strip().split(" :: ")[0] for l in r.stdout.splitlines() if l.startswith("  ") and " :: " in l]
            if r.returncode == 1 and keys:
                results.append({"control": name, "status": "reported", "rules": sorted({k.split("|")[0] for k in keys}), "first_key": keys[0][:200], "change": meta.get("summary", "")[:200]})
            else:
                results.append({"control": name, "status": "MISSED", "rc": r.returncode, "tail": r.stdout.strip().splitlines()[-1][:200] if r.stdout.strip() else "", "change": meta.get("summary", "")[:200]})
        finally:
            shutil.rmtree(scratch, ignore_errors=True)
    return results
