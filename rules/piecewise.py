"""Piecewise-affine tables of one-parameter integer functions, extracted from HIR.

For a function `fn f(x: uN) -> T` whose body is an if / else-if chain (or early `return`s) over comparisons of the parameter with
constants, and whose results are `c`, `x + c`, `x - c`, `Some(..)`, `None` or a constant, compute the exact table
    [(lo, hi, result)]      result = ("none",) | ("const", c) | ("affine", c)   meaning  x + c
covering the whole domain [0, 2^bits - 1].  The domain is split by interval arithmetic on the conditions (no values are run through
the code: conditions are intersected / subtracted as interval sets).  Anything outside the fragment raises NotPiecewise."""
import hirq as H


class NotPiecewise(Exception):
    pass


def _isub(dom, sub):
    """interval-list difference dom \\ sub"""
    out = []
    for lo, hi in dom:
        cur = [(lo, hi)]
        for slo, shi in sub:
            nxt = []
            for a, b in cur:
                if shi < a or slo > b:
                    nxt.append((a, b))
                    continue
                if a < slo:
                    nxt.append((a, slo - 1))
                if shi < b:
                    nxt.append((shi + 1, b))
            cur = nxt
        out += cur
    return out


def _iand(a, b):
    out = []
    for x, y in a:
        for u, v in b:
            lo, hi = max(x, u), min(y, v)
            if lo <= hi:
                out.append((lo, hi))
    return out


class Extract:
    def __init__(self, F, fid, consts=None):
        self.F = F
        h = F.hir[fid]
        self.h = h
        names = [n for p in h["params"] for n in H.pat_bindings(p)]
        if len(names) != 1:
            raise NotPiecewise("expects one parameter")
        self.x = names[0]
        bits = {"u8": 8, "u16": 16, "u32": 32, "u64": 64, "usize": 64}.get(h["ptys"][0])
        if bits is None:
            raise NotPiecewise("parameter type %s" % h["ptys"][0])
        self.full = [(0, (1 << bits) - 1)]
        self.pieces = []
        self.consts = consts or {}

    def const(self, n):
        n = H.strip(n)
        v = H.lit_int(n)
        if v is not None:
            return v
        if H.is_node(n) and n[0] == "binary" and n[2] in ("Add", "Sub", "Mul"):
            a, b = self.const(n[3]), self.const(n[4])
            if a is None or b is None:
                return None
            return a + b if n[2] == "Add" else a - b if n[2] == "Sub" else a * b
        if H.is_node(n) and n[0] == "path" and isinstance(n[2], list) and n[2][0] == "def":
            nm = n[2][2]
            for k, c in self.F.consts.items():
                if k == nm or k.endswith("::" + nm) or nm.endswith("::" + k.rsplit("::", 1)[-1]) and k.rsplit("::", 1)[-1] == nm.rsplit("::", 1)[-1]:
                    try:
                        return int(c["val"])
                    except ValueError:
                        return None
        return None

    def is_x(self, n):
        n = H.strip(n)
        return H.is_node(n) and n[0] == "path" and H.path_str(n) == self.x

    def cond(self, n):
        """-> interval list where the condition holds"""
        n = H.strip(n)
        if not H.is_node(n):
            raise NotPiecewise("condition")
        if n[0] == "binary" and n[2] in ("And", "Or"):
            a, b = self.cond(n[3]), self.cond(n[4])
            if n[2] == "And":
                return _iand(a, b)
            return a + _isub(b, a)
        if n[0] == "unary" and n[2] == "Not":
            return _isub(self.full, self.cond(n[3]))
        if n[0] == "binary" and n[2] in ("Le", "Lt", "Ge", "Gt", "Eq", "Ne"):
            op = n[2]
            if self.is_x(n[3]):
                c = self.const(n[4])
            elif self.is_x(n[4]):
                c = self.const(n[3])
                op = {"Le": "Ge", "Lt": "Gt", "Ge": "Le", "Gt": "Lt", "Eq": "Eq", "Ne": "Ne"}[op]
            else:
                raise NotPiecewise("comparison not on the parameter")
            if c is None:
                raise NotPiecewise("comparison with a non-constant")
            top = self.full[0][1]
            iv = {"Le": [(0, c)], "Lt": [(0, c - 1)], "Ge": [(c, top)], "Gt": [(c + 1, top)], "Eq": [(c, c)], "Ne": [(0, c - 1), (c + 1, top)]}[op]
            return _iand(self.full, [(a, b) for a, b in iv if a <= b])
        if n[0] == "mcall" and n[2] == "contains" and str(n[3]).startswith("std::ops::Range") and len(n[5]) == 1 and self.is_x(n[5][0]):
            iv = self.range_expr(n[4])
            if iv is not None:
                return _iand(self.full, iv)
        raise NotPiecewise("condition shape %s" % n[0])

    def range_expr(self, r):
        """interval list denoted by a range expression a..b, a..=b, a.., ..b, ..=b with constant ends"""
        r = H.strip(r)
        top = self.full[0][1]
        if H.is_node(r) and r[0] == "struct" and isinstance(r[2], list) and str(r[2][-1]).startswith("std::ops::Range"):
            kind = str(r[2][-1]).rsplit("::", 1)[-1]
            fs = {f[0]: self.const(f[1]) for f in r[3]}
            if any(v is None for v in fs.values()):
                raise NotPiecewise("range with a non-constant end")
            if kind == "Range":
                lo, hi = fs["start"], fs["end"] - 1
            elif kind == "RangeFrom":
                lo, hi = fs["start"], top
            elif kind == "RangeTo":
                lo, hi = 0, fs["end"] - 1
            elif kind == "RangeToInclusive":
                lo, hi = 0, fs["end"]
            else:
                return None
            return [(lo, hi)] if lo <= hi else []
        if H.is_node(r) and r[0] == "call" and "RangeInclusive" in str(r[2]) and str(r[2]).endswith("::new") and len(r[4]) == 2:
            lo, hi = self.const(r[4][0]), self.const(r[4][1])
            if lo is None or hi is None:
                raise NotPiecewise("range with a non-constant end")
            return [(lo, hi)] if lo <= hi else []
        return None

    def pat_iv(self, p):
        """interval list matched by a literal / range / or / wildcard pattern"""
        while p and p[0] == "pref":
            p = p[1]
        top = self.full[0][1]
        if not p:
            raise NotPiecewise("pattern")
        if p[0] == "wild" or (p[0] == "bind" and p[3] is None):
            return list(self.full)
        if p[0] == "por":
            out = []
            for q in p[1]:
                iv = self.pat_iv(q)
                out = out + _isub(iv, out)
            return out
        def pconst(q):
            if q is None:
                return None
            if q[0] == "plit" and q[1][0] == "int" and not q[2]:
                return int(q[1][1])
            if q[0] == "ppath" and q[1][0] == "def":
                return self.const(["path", 0, q[1], None])
            raise NotPiecewise("pattern constant")
        if p[0] == "plit":
            c = pconst(p)
            return _iand(self.full, [(c, c)])
        if p[0] == "ppath":
            c = pconst(p)
            if c is None:
                raise NotPiecewise("pattern constant")
            return _iand(self.full, [(c, c)])
        if p[0] == "prange":
            lo = pconst(p[1]) if p[1] is not None else 0
            hi = pconst(p[2]) if p[2] is not None else top
            if lo is None or hi is None:
                raise NotPiecewise("pattern constant")
            if p[2] is not None and "Excluded" in p[3]:
                hi -= 1
            return _iand(self.full, [(lo, hi)]) if lo <= hi else []
        raise NotPiecewise("pattern shape %s" % p[0])

    def walk_match(self, n, dom, walker):
        if not self.is_x(n[2]):
            raise NotPiecewise("match not on the parameter")
        rest = []
        for arm in n[3]:
            if arm[1] is not None:
                raise NotPiecewise("match guard")
            iv = self.pat_iv(arm[0])
            here = _iand(dom, iv)
            dom = _isub(dom, iv)
            rest = rest + walker(arm[2], here)
        return rest + dom

    def result(self, n):
        n = H.strip(n)
        if H.is_node(n) and n[0] == "call" and (n[2] or "").endswith("::Some") and len(n[4]) == 1:
            return self.result(n[4][0])
        if H.is_node(n) and n[0] == "path" and isinstance(n[2], list) and n[2][0] == "def" and str(n[2][2]).endswith("::None"):
            return ("none",)
        if H.is_node(n) and n[0] == "ret":
            return self.result(n[2])
        c = self.const(n)
        if c is not None:
            return ("const", c)
        if self.is_x(n):
            return ("affine", 0)
        if H.is_node(n) and n[0] == "binary" and n[2] in ("Add", "Sub"):
            a, b = n[3], n[4]
            ra = ("affine", 0) if self.is_x(a) else None
            rb = ("affine", 0) if self.is_x(b) else None
            ca, cb = self.const(a), self.const(b)
            if ra is None and ca is None:
                ra = self.result(a)
            if rb is None and cb is None:
                rb = self.result(b)
            if n[2] == "Add":
                if ra and ra[0] == "affine" and cb is not None:
                    return ("affine", ra[1] + cb)
                if rb and rb[0] == "affine" and ca is not None:
                    return ("affine", rb[1] + ca)
            else:
                if ra and ra[0] == "affine" and cb is not None:
                    return ("affine", ra[1] - cb)
        raise NotPiecewise("result shape")

    def walk(self, n, dom):
        """process expression n under domain dom; returns the part of dom that falls through (no value produced)"""
        n = H.strip(n)
        if not dom:
            return []
        if H.is_node(n) and n[0] == "block":
            for st in n[2]:
                if st[0] == "let":
                    raise NotPiecewise("let binding")
                dom = self.walk_stmt(st[2], dom)
            if n[3] is None:
                return dom
            return self.walk(n[3], dom)
        if H.is_node(n) and n[0] == "if":
            c = self.cond(n[2])
            t = _iand(dom, c)
            e = _isub(dom, c)
            rest = self.walk(n[3], t)
            if n[4] is not None:
                rest = rest + self.walk(n[4], e)
            else:
                rest = rest + e
            return rest
        if H.is_node(n) and n[0] == "match":
            return self.walk_match(n, dom, self.walk)
        r = self.result(n)
        for lo, hi in dom:
            self.pieces.append((lo, hi, r))
        return []

    def walk_stmt(self, n, dom):
        n = H.strip(n)
        if H.is_node(n) and n[0] == "if":
            c = self.cond(n[2])
            t = _iand(dom, c)
            e = _isub(dom, c)
            rest_t = self.walk_stmt(n[3], t)
            rest_e = self.walk_stmt(n[4], e) if n[4] is not None else e
            return rest_t + rest_e
        if H.is_node(n) and n[0] == "block":
            for st in n[2]:
                if st[0] == "let":
                    raise NotPiecewise("let binding")
                dom = self.walk_stmt(st[2], dom)
            if n[3] is not None:
                dom = self.walk_stmt(n[3], dom)
            return dom
        if H.is_node(n) and n[0] == "match":
            return self.walk_match(n, dom, self.walk_stmt)
        if H.is_node(n) and n[0] == "ret":
            r = self.result(n[2])
            for lo, hi in dom:
                self.pieces.append((lo, hi, r))
            return []
        raise NotPiecewise("statement shape %s" % (n[0] if H.is_node(n) else n))


def table(F, fid):
    ex = Extract(F, fid)
    rest = ex.walk(ex.h["body"], list(ex.full))
    if rest:
        raise NotPiecewise("part of the domain produces no value: %s" % rest)
    out = sorted(ex.pieces)
    # merge adjacent pieces with the same result
    merged = []
    for lo, hi, r in out:
        if merged and merged[-1][2] == r and merged[-1][1] + 1 == lo:
            merged[-1] = (merged[-1][0], hi, r)
        else:
            merged.append((lo, hi, r))
    return merged
