"""C05 — built transactions conserve value exactly (enforcement path: E5 mustpass + mustflow + E4 must-read + operator scan)."""
import re

import common
import facts
import fieldflow as ff
import mustflow
import mustpass as mp
from ruleutil import find_fn, fields_read, run_mustflow, raw_amount_ops, stmt_reading_field, direct_call_of

TB = "builders::tx_builder::TransactionBuilder"

EXPLANATION = (
    "The builder enforces preservation of value with a final gate, so the property rests on structural facts that hold for all "
    "inputs: (MP) every path of build_tx that returns Ok passed validate_inputs_intersection()?, validate_fee()? and "
    "validate_balance()? on their Continue edges (dominators over MIR); (G) validate_balance returns Ok only on the `equal` edge of "
    "a Value (in)equality whose operands are the results of get_total_input and get_total_output, with the fee added into the "
    "compared output; (MF) flow-sensitive must-flow: on every success path each total is derived from every term - inputs, "
    "withdrawals, refunds, minted / outputs, deposits (certificates and proposals), burned, donation - so a dropped or overwritten "
    "term is reported; the per-item folds add every element's amount to the accumulator; (R) the totals and the body builder read "
    "the same value-carrying builder fields; (A) the accounting functions contain no raw integer operator on an amount and the "
    "equality is Value's PartialEq, not a partial order. With the gate in place an upstream arithmetic slip yields Err, never an "
    "unbalanced transaction. Not decided: that add_change_if_needed finds a balanced assignment (liveness); build()/build_tx_unsafe() "
    "are public bypasses by design."
)

VALUE_FIELDS = ["inputs", "outputs", "fee", "withdrawals", "certs", "mint", "voting_proposals", "donation"]


def check(rep, F, tier, replay=None):
    # ---- MP: build_tx gated -------------------------------------------------------------------
    rep.rule("MP-gate", "every Ok-return of TransactionBuilder::build_tx is dominated by the Continue edge of `?` on the validator call")
    fid = find_fn(rep, F, "TransactionBuilder::build_tx")
    if fid:
        fn = F.fns[fid]
        for v in ("validate_inputs_intersection", "validate_fee", "validate_balance"):
            rep.inst("MP-gate")
            calls, conts, bad = mp.must_pass(F, fid, lambda to, v=v: to.endswith("::" + v))
            if not calls:
                rep.violation("MP-gate", "build_tx|%s|missing" % v, "TransactionBuilder::build_tx no longer calls %s: a transaction can be released without that check" % v, {"function": fid, "file": fn["file"]})
            elif bad:
                where = ", ".join(facts.loc_str(b[2], fn) for b in bad)
                rep.violation("MP-gate", "build_tx|%s|bypass" % v, "TransactionBuilder::build_tx can return Ok (%s) without passing %s()? successfully (result ignored, or a path around it)" % (where, v), {"function": fid, "success_stores_not_dominated": [b[:2] for b in bad]})
            else:
                rep.sample({"rule": "MP-gate", "function": "TransactionBuilder::build_tx", "validator": v, "continue_blocks": conts, "ok_returns": len(mp.success_stores(F, fid))})
        # build_tx hands out build_tx_unsafe's result, nothing else
        ss = mp.success_stores(F, fid)
        rep.inst("MP-gate")
        for bi, kind, loc in ss:
            if not kind.endswith("build_tx_unsafe"):
                rep.violation("MP-gate", "build_tx|other-success", "TransactionBuilder::build_tx has a success return that is not build_tx_unsafe() (%s at %s)" % (kind, facts.loc_str(loc, fn)), {})
    # ---- G: validate_balance ------------------------------------------------------------------
    rep.rule("G-balance", "validate_balance returns Ok only on the `equal` edge of Value ==/!= applied to get_total_input() and get_total_output() (+ fee)")
    fid = find_fn(rep, F, "TransactionBuilder::validate_balance")
    if fid:
        fn = F.fns[fid]
        org = ff.Origins(F, fid)
        cmps = [c for c in F.calls(fid) if c.to and c.to.endswith(("PartialEq>::ne", "PartialEq>::eq", "PartialEq::ne", "PartialEq::eq")) and ("utils::Value" in c.info.get("ga", "") or "Value" in F.key(c.to))]
        rep.inst("G-balance")
        if len(cmps) != 1:
            others = [c.to for c in F.calls(fid) if c.to and ("partial_cmp" in c.to or "PartialOrd" in c.to)]
            rep.violation("G-balance", "compare", "validate_balance does not decide by exactly one Value equality (found %d; ordering calls: %s)" % (len(cmps), others), {"function": fid})
        else:
            c = cmps[0]
            is_ne = c.to.endswith("::ne")
            o = set()
            for a in c.args:
                o |= org.of_operand(a)
            need = ["get_total_input", "get_total_output"]
            for n in need:
                rep.inst("G-balance")
                if not any(x.startswith("call:") and x.split("@")[0].endswith("::" + n) for x in o):
                    rep.violation("G-balance", "operand|" + n, "the equality in validate_balance does not compare the result of %s()" % n, {"origins": sorted(o)[:20]})
            g = mp.bool_gate(F, fid, c)
            rep.inst("G-balance")
            if g is None:
                rep.violation("G-balance", "gate", "the result of the Value comparison in validate_balance does not decide a branch", {})
            else:
                f_blk, t_blk = g
                eq_blk = f_blk if is_ne else t_blk
                neq_blk = t_blk if is_ne else f_blk
                for bi, kind, loc in mp.success_stores(F, fid):
                    if not mp.dominated_by(fn, bi, eq_blk):
                        rep.violation("G-balance", "ok-not-on-equal-edge", "validate_balance returns Ok at %s on a path where the totals were not found equal" % facts.loc_str(loc, fn), {})
                errs = [e for e in mp.error_stores(F, fid) if e[1] == "err"]
                if not any(mp.dominated_by(fn, e[0], neq_blk) for e in errs):
                    rep.violation("G-balance", "no-err-on-unequal-edge", "validate_balance has no Err return on the `not equal` edge", {})
            # fee flows into the compared output
            adds = [x for x in F.calls(fid) if (x.to or "").endswith("BigNum::checked_add")]
            rep.inst("G-balance")
            if not adds:
                rep.violation("G-balance", "fee-missing", "validate_balance no longer adds the fee to the total output before comparing", {})
            else:
                fl = mustflow.FnFlow(F, fid)
                for a in adds:
                    r = fl.run(("call", a.bb), sink=("callargs", c.bb))
                    if not r or not all(x["ok"] for x in r):
                        rep.violation("G-balance", "fee-not-compared", "validate_balance computes output + fee but the compared value is not derived from it", {})
                # and the fee itself comes from get_fee_if_set
                o2 = set()
                for a in adds[0].args:
                    o2 |= org.of_operand(a)
                if not any(x.startswith("call:") and x.split("@")[0].endswith("get_fee_if_set") for x in o2):
                    rep.violation("G-balance", "fee-source", "the amount added to the total output in validate_balance is not get_fee_if_set()", {"origins": sorted(o2)[:12]})
    # ---- MF: totals derived from every term ---------------------------------------------------
    mf = common.load_table("mustflow.json")["entries"]
    run_mustflow(rep, F, [e for e in mf if "C05" in e["props"]])
    # donation (field source)
    fid = find_fn(rep, F, "TransactionBuilder::get_total_output")
    if fid:
        rep.inst("MF")
        src = stmt_reading_field(F, fid, TB, "donation")
        if src is None:
            rep.violation("MF", "TransactionBuilder::get_total_output|donation|missing", "get_total_output no longer reads the treasury donation", {})
        else:
            r = mustflow.FnFlow(F, fid).run(("stmt", src[0], src[1]))
            # the donation is optional: only the Some path must carry it; the statement is the borrow of the field, the
            # None path also passes through it, so require at least one success store derived and the checked_add present
            calls = [c for c in F.calls(fid) if (c.to or "").endswith("Value::checked_add")]
            fl = mustflow.FnFlow(F, fid)
            ok = False
            for c in calls:
                rr = fl.run(("stmt", src[0], src[1]), sink=("callargs", c.bb))
                if rr and rr[0]["ok"]:
                    res = fl.run(("call", c.bb))
                    if res and all(x["ok"] for x in res):
                        ok = True
            if not ok:
                rep.violation("MF", "TransactionBuilder::get_total_output|donation", "the donation is not added into the returned total output on the path where it is present", {})
    # folds: closure adds element amount to accumulator
    rep.rule("MF-fold", "the fold closure's result is derived from both the accumulator and the element")
    for key in ("TransactionBuilder::get_explicit_input", "TransactionBuilder::get_explicit_output", "WithdrawalsBuilder::get_total_withdrawals"):
        fid = find_fn(rep, F, key)
        if not fid:
            continue
        cls = F.closures_of.get(fid, [])
        if not cls:
            # a for loop instead of a fold: the function itself accumulates
            rep.inst("MF-fold")
            continue
        for cl in cls:
            fl = mustflow.FnFlow(F, cl)
            argc = F.fns[cl]["argc"]
            for k in range(2, argc + 1):
                rep.inst("MF-fold")
                r = fl.run(("arg", k))
                if not r or not all(x["ok"] for x in r):
                    rep.violation("MF-fold", "%s|arg%d" % (F.key(cl), k), "%s: the folded result is not derived from closure argument %d (%s) on some path" % (F.key(cl), k, "accumulator" if k == 2 else "element"), {"closure": cl})
    # ---- R: must-read matrix ------------------------------------------------------------------
    rep.rule("R-read", "function (transitively, depth 4) reads the value-carrying builder field")
    for key, fields in (("TransactionBuilder::validate_balance", VALUE_FIELDS), ("TransactionBuilder::build_and_size", VALUE_FIELDS)):
        fid = find_fn(rep, F, key)
        if not fid:
            continue
        got = fields_read(F, fid, depth=4)
        for f in fields:
            rep.inst("R-read")
            alt = "fee_request" if f == "fee" else None
            if (TB, f) not in got and not (alt and (TB, alt) in got):
                rep.violation("R-read", "%s|%s" % (key, f), "%s never reads TransactionBuilder.%s: that part of the transaction is left out of the %s" % (key, f, "balance check" if "validate" in key else "emitted body"), {"function": key, "field": f})
    # ---- A: no raw operator on amounts --------------------------------------------------------
    rep.rule("A-noraw", "no raw integer operator (+ - * / << on 32/64/128-bit integers) in the balance accounting functions")
    for key in ("TransactionBuilder::get_total_input", "TransactionBuilder::get_total_output", "TransactionBuilder::get_explicit_input", "TransactionBuilder::get_explicit_output",
                "TransactionBuilder::get_implicit_input", "TransactionBuilder::get_deposit", "TransactionBuilder::validate_balance", "TransactionBuilder::get_mint_as_values",
                "WithdrawalsBuilder::get_total_withdrawals", "CertificatesBuilder::get_certificates_deposit", "CertificatesBuilder::get_certificates_refund", "VotingProposalBuilder::get_total_deposit"):
        fid = find_fn(rep, F, key)
        if not fid:
            continue
        rep.inst("A-noraw")
        for sub, op, ty, loc in raw_amount_ops(F, fid):
            rep.violation("A-noraw", "%s|%s|%s" % (F.key(sub), op, ty), "%s uses the raw operator %s on %s at %s: an overflow would wrap (release) or panic (debug) instead of failing the build explicitly" % (F.key(sub), op, ty, facts.loc_str(loc, F.fns[sub])), {})
    # ---- FEE-pair: a fee increment for a change output is always followed by the creation of an output ---------------
    rep.rule("FEE-pair", "in add_change_if_needed every `fee += fee_for_output(o)` is followed, on every path to a success return, by the addition of an output: the fee never pays for an output that is not created")
    fid = find_fn(rep, F, "TransactionBuilder::add_change_if_needed_with_optional_script_and_datum")
    if fid:
        fn = F.fns[fid]
        org = ff.Origins(F, fid)
        outs = {c.bb for c in F.calls(fid) if (c.to or "").endswith("TransactionBuilder::add_output") or (c.to or "").endswith("TransactionOutputs::add")}
        succ_blocks = {b for b, k, l in mp.success_stores(F, fid)}
        n_pair = 0
        for c in F.calls(fid):
            if not (c.to or "").endswith("BigNum::checked_add"):
                continue
            t = fn["bbs"][c.bb]["t"]
            if len(t[3]) < 2:
                continue

            def ref_target(op):
                if op[0] not in ("c", "m"):
                    return None
                cur = op[1]
                for _ in range(4):
                    nxt = None
                    base = cur[:-2] if cur.endswith("|*") else cur
                    for bb2 in fn["bbs"]:
                        for st2 in bb2["st"]:
                            if st2[1] == "=" and st2[2] == base and st2[3][0] == "ref":
                                nxt = st2[3][2]
                    if nxt is None:
                        return cur if cur != op[1] else None
                    cur = nxt
                    if "|" not in cur:
                        # a plain local: done unless it is itself a reference temp
                        if not any(st2[1] == "=" and st2[2] == cur and st2[3][0] == "ref" for bb2 in fn["bbs"] for st2 in bb2["st"]):
                            return cur
                return cur

            def local_from_call(local):
                """the call whose `?`-unwrapped result is stored (once) into `local`"""
                hits = []
                for bb2 in fn["bbs"]:
                    for st2 in bb2["st"]:
                        if st2[1] == "=" and st2[2] == local and st2[3][0] == "use":
                            hits.append(direct_call_of(fn, st2[3][1]))
                return hits

            recv_local, arg_local = ref_target(t[3][0]), ref_target(t[3][1])
            if not recv_local or not arg_local:
                continue
            srcs = [h for h in local_from_call(arg_local) if h]
            direct = [h for h in srcs if h[1].endswith("fee_for_output")]
            if not direct or len(srcs) != len(direct):
                continue  # the added operand is not (only) the fee of an output
            if not any(h and h[0] == c.bb for h in local_from_call(recv_local)):
                continue  # not an in-place accumulator update (a tentative `let new = fee.checked_add(..)` is judged where it is set)
            direct = ["call:fee_for_output@%d" % h[0] for h in direct]
            n_pair += 1
            rep.inst("FEE-pair")
            seen = set()
            work = [s_ for s_ in F.succ(fn, c.bb, with_unwind=False) if s_ is not None]
            bad = None
            while work and bad is None:
                b = work.pop()
                if b in seen or fn["bbs"][b]["c"]:
                    continue
                seen.add(b)
                if b in outs:
                    continue
                if b in succ_blocks:
                    bad = b
                    break
                work += [s_ for s_ in F.succ(fn, b, with_unwind=False) if s_ is not None]
            if bad is not None:
                rep.violation("FEE-pair", "add_change_if_needed|%s" % "+".join(sorted(x.split("@")[0].rsplit("::", 1)[-1] for x in direct)), "add_change_if_needed adds the fee of an output (%s) and can then return success (%s) without creating any output: outputs + fee exceed inputs by that amount" % (facts.loc_str(t[0], fn), facts.loc_str(fn["bbs"][bad]["t"][0], fn)), {})
        rep.floor("in-place fee increments paired with an output creation", 2, n_pair)
    # ---- ACC: accumulators are accumulated, never overwritten, inside loops -------------------
    import accumulators
    accumulators.check(rep, F, ["TransactionBuilder::get_total_input", "TransactionBuilder::get_total_output", "TransactionBuilder::get_explicit_input", "TransactionBuilder::get_explicit_output",
                               "TransactionBuilder::get_implicit_input", "TransactionBuilder::get_deposit", "TransactionBuilder::get_mint_as_values", "TxInputsBuilder::total_value",
                               "WithdrawalsBuilder::get_total_withdrawals", "CertificatesBuilder::get_certificates_deposit", "CertificatesBuilder::get_certificates_refund",
                               "VotingProposalBuilder::get_total_deposit", "TransactionBuilder::add_change_if_needed_with_optional_script_and_datum"], floor=12)
    from ruleutil import arith_unused_rule
    arith_unused_rule(rep, F, ["src/builders/", "src/utils.rs"])
    from ruleutil import ord_eq_rule
    ord_eq_rule(rep, F)
    # ACC-cast: no lossy integer cast on the accounting path
    import e3_arith as e3_
    rep.rule("ACC-cast", "no lossy integer cast (narrowing / sign-changing `as`) in any function the builder's accounting reaches (call closure of get_total_input / get_total_output / get_explicit_input / get_explicit_output / get_implicit_input / get_deposit / get_mint_as_values) outside the audited inventory: an amount above 2^63 must not change while it is summed")
    ACC_CAST_OK = {"Int::as_positive|i128->u64": "only on the is_positive() branch of a value within the Int range (<= 2^64 - 1)"}
    roots_ = [f for f in F.fns if any(f.endswith("TransactionBuilder::" + n) for n in ("get_total_input", "get_total_output", "get_explicit_input", "get_implicit_input", "get_explicit_output", "get_deposit", "get_mint_as_values"))]
    if len(roots_) < 6:
        rep.lost("accounting roots of the TransactionBuilder not found (%d)" % len(roots_))
    seen_, work_ = set(), [(r, 0) for r in roots_]
    while work_:
        x_, d_ = work_.pop()
        if x_ in seen_ or x_ not in F.fns:
            continue
        seen_.add(x_)
        if d_ >= 8:
            continue
        for sub in [x_] + [c for c in F.fns if c.startswith(x_ + "::{closure")]:
            for c in F.calls(sub):
                if c.to in F.fns:
                    work_.append((c.to, d_ + 1))
    cnt_ = {}
    n_c = 0
    for fid_ in seen_:
        for sub in [fid_] + [c for c in F.fns if c.startswith(fid_ + "::{closure")]:
            fn_ = F.fns[sub]
            if F.is_derived(sub) or "/tests/" in fn_["file"]:
                continue
            for bb in fn_["bbs"]:
                if bb["c"]:
                    continue
                for st in bb["st"]:
                    if st[1] == "=" and st[3][0] == "cast" and st[3][1] == "IntToInt":
                        n_c += 1
                        if e3_.cast_lossy(st[3][3], st[3][4]) and not e3_.const_cast_exact(st[3][2], st[3][4]):
                            k_ = "%s|%s->%s" % (F.key(fid_), st[3][3], st[3][4])
                            cnt_[k_] = cnt_.get(k_, 0) + 1
    rep.inst("ACC-cast", max(n_c, 1))
    for k_, n_ in sorted(cnt_.items()):
        if k_ in ACC_CAST_OK and n_ <= 1:
            rep.allow("ACC-cast", n_)
            continue
        rep.violation("ACC-cast", k_, "lossy integer cast %s on the builder's accounting path: a burn above 2^63 is valued as 2^64 minus the amount, the change calculation puts the difference into the change output and reports success" % k_, {})
    rep.floor("functions on the accounting path", 30, len(seen_))
    # KEYED-store: what a sub-builder sums is what it emits
    rep.rule("KEYED-store", "every sub-builder whose entries are emitted into a key-unique collection (withdrawals / votes maps, input / certificate / proposal sets, one mint entry per policy) stores them in a map keyed by that same key: the value accessors the balance uses (get_total_withdrawals, total_value, deposits, refunds) sum every stored entry, the emitted collection keeps one entry per key - a second add for the same key must replace, not accumulate")
    KEYED = {
        "WithdrawalsBuilder": ("withdrawals", "protocol_types::address::RewardAddress"),
        "TxInputsBuilder": ("inputs", "protocol_types::tx_input::TransactionInput"),
        "MintBuilder": ("mints", "protocol_types::crypto::macro_implemented_hash_types::ScriptHash"),
        "CertificatesBuilder": ("certs", "protocol_types::certificates::certificate::Certificate"),
        "VotingBuilder": ("votes", "protocol_types::governance::voter::Voter"),
        "VotingProposalBuilder": ("proposals", "protocol_types::governance::proposals::voting_proposal::VotingProposal"),
    }
    for b_, (fld_, key_) in sorted(KEYED.items()):
        adts_ = [a for a in F.adts if a.rsplit("::", 1)[-1] == b_ and "builders::" in a]
        if len(adts_) != 1:
            rep.lost("sub-builder %s not found" % b_)
            continue
        ty_ = [f["ty"] for f in F.adts[adts_[0]]["variants"][0]["fields"] if f["name"] == fld_]
        if not ty_:
            rep.lost("%s.%s not found" % (b_, fld_))
            continue
        rep.inst("KEYED-store")
        if not re.search(r"(Map|Set)<%s[,>]" % re.escape(key_), ty_[0]):
            rep.violation("KEYED-store", "%s.%s" % (b_, fld_), "%s.%s has type `%s`, not a map keyed by %s: adding the same %s twice keeps both entries, the balance sums both, the emitted collection holds one - the built transaction creates or destroys value" % (b_, fld_, ty_[0][:90], key_.rsplit("::", 1)[-1], key_.rsplit("::", 1)[-1]), {})
    from ruleutil import value_sub_total_rule
    value_sub_total_rule(rep, F)
    from ruleutil import fill_commit_rule
    n_fc = fill_commit_rule(rep, F, ["src/builders/", "src/lib.rs", "src/utils.rs", "src/protocol_types/"])
    rep.floor("collections filled per iteration (FILL-commit)", 4, n_fc)
    from ruleutil import value_iter_rule
    value_iter_rule(rep, F)
    return rep.finish(
        EXPLANATION,
        ["Value's PartialEq compares lovelace and every asset (treating absent and empty bundles alike) — its algebra is C14's concern",
         "the per-certificate deposit/refund tables are C20's concern", "build()/build_tx_unsafe() bypass the gate by design"],
        ["rustc MIR dominators and def-use (csl-facts)", "tables/mustflow.json"],
    )
