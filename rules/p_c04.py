import re
"""C04 — original bytes and the hashes derived from them are preserved (E4 fieldflow + origins + HIR shapes)."""
import facts
import fieldflow as ff
import hirq as H
from e1_panicpath import dominators

FT = "protocol_types::fixed_tx::FixedTransaction"
FTB = "protocol_types::block::fixed_tx_body::FixedTransactionBody"
FWS = "protocol_types::witnesses::fixed_tx_witnesses_set::FixedTxWitnessesSet"
WS = "protocol_types::witnesses::transaction_witnesses_set::TransactionWitnessSet"
WSR = "protocol_types::witnesses::transaction_witnesses_set::TransactionWitnessSetRaw"
PD = "protocol_types::plutus::plutus_data::PlutusData"

EXPLANATION = (
    "Ownership / co-update / def-use rules over the MIR of every function in the crate, plus HIR shape rules for the writers. "
    "(1) Every function that stores FixedTransaction.body_bytes (field store or struct literal) also stores body and tx_hash, the "
    "tx_hash value is the result of blake2b256 applied to a value computed from the same function argument as the stored bytes, and "
    "nothing else stores tx_hash; same for FixedTransactionBody.{original_bytes, tx_hash}; auxiliary_bytes is co-updated with "
    "auxiliary_data from the same argument. (2) transaction_hash() returns the field and every sign_and_add_* hands that field to "
    "the witness constructor. (3) The FixedTransaction writer emits body_bytes / auxiliary_bytes through write_raw_bytes and never "
    "calls the typed TransactionBody / AuxiliaryData serializer. (4) Witness-set pairing: every function that mutates typed witness "
    "field X through a FixedTxWitnessesSet clears raw part X - exactly X, with None - on every path, and nothing else writes raw parts "
    "except the decoder. (5) The decoder stores raw part X from the same deserilized_with_orig_bytes call whose typed result becomes "
    "field X, and the witness writer emits key k from raw part / typed field of the same X. (6) The byte-capturing readers "
    "(deserilized_with_orig_bytes, PlutusData::deserialize) slice exactly the range between two seek positions taken before and after "
    "the decode call, in dominance order. (7) PlutusData: every store of datum also stores original_bytes; the writer emits "
    "original_bytes verbatim when present. These are necessary conditions of byte preservation that hold for every accepted encoding."
)


def fn1(rep, F, key):
    ids = F.by_key(key)
    if len(ids) != 1:
        rep.lost("function %s not found (%d candidates)" % (key, len(ids)))
        return None
    return ids[0]


def agg_operand(F, agg, adt, field):
    idx = ff.field_index(F, adt, field)
    if idx is None or idx >= len(agg[5]):
        return None
    return agg[5][idx]


def hash_bytes_rule(rep, F, adt, bytes_field, hash_field, companion, rule):
    """writers of `bytes_field` co-update `hash_field` (+companion) and hash = blake2b256(same source)"""
    rep.rule(rule, "every writer of %s.%s also writes %s (and %s); the hash value is blake2b256 of a value computed from the same source as the stored bytes; no other function stores the hash" % (H.short(adt), bytes_field, hash_field, companion))
    writers = 0
    hash_writers = set()
    bytes_writers = set()
    for fid in F.fns:
        if F.is_derived(fid):
            continue
        ffs = ff.FnFields(F, fid)
        aggs = ffs.aggregates_of(adt)
        bst = ffs.stores_to(adt, bytes_field)
        hst = ffs.stores_to(adt, hash_field)
        cst = ffs.stores_to(adt, companion) if companion else [1]
        if hst or aggs:
            hash_writers.add(fid)
        if not (aggs or bst):
            continue
        bytes_writers.add(fid)
        writers += 1
        rep.inst(rule)
        org = ff.Origins(F, fid)
        key = F.key(fid)
        fn = F.fns[fid]
        cases = []
        for a in aggs:
            cases.append((agg_operand(F, a, adt, bytes_field), agg_operand(F, a, adt, hash_field), "struct literal at %s" % facts.loc_str(fn["bbs"][a[2]]["st"][a[3]][0], fn)))
        if bst:
            if not hst:
                rep.violation(rule, "%s|%s-without-%s" % (key, bytes_field, hash_field), "%s stores %s.%s but not %s: the reported hash goes stale (later signatures would sign the old body)" % (key, H.short(adt), bytes_field, hash_field), {"function": fid, "file": fn["file"]})
                continue
            if companion and not cst:
                rep.violation(rule, "%s|%s-without-%s" % (key, bytes_field, companion), "%s stores %s.%s but not the decoded %s" % (key, H.short(adt), bytes_field, companion), {"function": fid})
                continue
            b_rv, h_rv = bst[0][4], hst[0][4]
            cases.append((b_rv, h_rv, "field stores"))
        for b_op, h_op, where in cases:
            bo = _origins_any(org, b_op)
            ho = _origins_any(org, h_op)
            hcalls = ff.calls_of(ho, "blake2b256")
            if not hcalls:
                rep.violation(rule, "%s|hash-not-blake2b256" % key, "%s (%s): the value stored to %s is not computed by blake2b256" % (key, where, hash_field), {"function": fid, "origins": sorted(ho)[:12]})
                continue
            ok = False
            for hc in hcalls:
                bi = int(hc.split("@")[1])
                t = org.call_term(bi)
                ao = set()
                for a in t[3]:
                    ao |= org.of_operand(a)
                src_h = {o for o in ao if o.startswith("arg:") or (o.startswith("call:") and "deserilized_with_orig_bytes" in o)}
                src_b = {o for o in bo if o.startswith("arg:") or (o.startswith("call:") and "deserilized_with_orig_bytes" in o)}
                if src_h and src_h == src_b:
                    ok = True
            if not ok:
                rep.violation(rule, "%s|hash-of-other-bytes" % key, "%s (%s): blake2b256 is applied to a value that does not come from the same source as the bytes stored in %s" % (key, where, bytes_field), {"function": fid, "bytes_origins": sorted(bo)[:12], "hash_origins": sorted(ho)[:12]})
            else:
                rep.sample({"rule": rule, "writer": key, "where": where, "hash": "blake2b256(same source as %s)" % bytes_field})
    extra = hash_writers - bytes_writers
    for fid in sorted(extra):
        rep.violation(rule, "%s|stores-%s-alone" % (F.key(fid), hash_field), "%s stores %s.%s without storing %s" % (F.key(fid), H.short(adt), hash_field, bytes_field), {"function": fid})
    return writers


def _origins_any(org, x):
    if isinstance(x, tuple) and x and x[0] == "callres":
        t = x[1]
        out = {"call:%s@?" % (t[2].get("to") or "?")}
        for a in t[3]:
            out |= org.of_operand(a)
        return out
    if isinstance(x, list) and x and x[0] in ("c", "m", "k"):
        return org.of_operand(x)
    if isinstance(x, list):  # rvalue
        out = set()
        k = x[0]
        if k in ("use", "repeat"):
            out |= org.of_operand(x[1])
        elif k in ("ref", "rawptr"):
            out |= org.of_place(x[2])
        elif k == "cast":
            out |= org.of_operand(x[2])
        elif k == "agg":
            for o in x[4]:
                out |= org.of_operand(o)
        elif k in ("discr", "deref"):
            out |= org.of_place(x[1])
        return out
    return set()


def check(rep, F, tier, replay=None):
    # (1) hash/bytes co-update
    n = hash_bytes_rule(rep, F, FT, "body_bytes", "tx_hash", "body", "FT-hash")
    rep.floor("writers of FixedTransaction.body_bytes", 5, n)
    n = hash_bytes_rule(rep, F, FTB, "original_bytes", "tx_hash", "body", "FTB-hash")
    rep.floor("writers of FixedTransactionBody.original_bytes", 1, n)
    # auxiliary co-update
    rep.rule("FT-aux", "every field store of FixedTransaction.auxiliary_bytes is accompanied by a store of auxiliary_data computed from the same argument")
    for fid in F.fns:
        if F.is_derived(fid):
            continue
        ffs = ff.FnFields(F, fid)
        a = ffs.stores_to(FT, "auxiliary_bytes")
        d = ffs.stores_to(FT, "auxiliary_data")
        if not a and not d:
            continue
        rep.inst("FT-aux")
        key = F.key(fid)
        if bool(a) != bool(d):
            rep.violation("FT-aux", "%s|one-sided" % key, "%s stores only one of FixedTransaction.auxiliary_data / auxiliary_bytes" % key, {"function": fid})
            continue
        org = ff.Origins(F, fid)
        ao = ff.args_of(_origins_any(org, a[0][4]))
        do = ff.args_of(_origins_any(org, d[0][4]))
        if not ao or ao != do:
            rep.violation("FT-aux", "%s|different-source" % key, "%s: auxiliary_bytes and auxiliary_data are computed from different arguments (%s vs %s)" % (key, sorted(ao), sorted(do)), {"function": fid})
    # FT-capture: inside the byte-preserving transaction decoder a preserved part is never decoded outside a capture
    rep.rule("FT-capture", "in serialization/fixed_tx.rs (the FixedTransaction decoder and its closures) every call of the typed TransactionBody / AuxiliaryData reader sits in a closure that is handed to deserilized_with_orig_bytes: a part decoded without the capture has no original bytes, so the transaction is re-serialised without it (a legacy 3-element transaction would lose its auxiliary data: `null` is written and the hashes of what is signed change)")
    n_cap = 0
    for fid, fn in F.fns.items():
        if (fn.get("file") or "") != "src/serialization/fixed_tx.rs" or F.is_derived(fid):
            continue
        for c in F.calls(fid):
            to = c.to or ""
            if not re.search(r"Deserialize for protocol_types::(transaction_body::TransactionBody|metadata::AuxiliaryData)>::deserialize$", to):
                continue
            n_cap += 1
            rep.inst("FT-capture")
            par = fid.rsplit("::{closure", 1)[0] if "::{closure" in fid else None
            ok = False
            if par and par in F.fns:
                porg = ff.Origins(F, par)
                pfn = F.fns[par]
                for pc in F.calls(par):
                    if (pc.to or "").endswith("deserilized_with_orig_bytes") and any(("closure:" + fid) in porg.of_operand(a) for a in pfn["bbs"][pc.bb]["t"][3]):
                        ok = True
            if not ok:
                what = "AuxiliaryData" if "AuxiliaryData" in to else "TransactionBody"
                rep.violation("FT-capture", "%s|%s" % (F.key(fid.split("::{closure")[0]), what), "%s decodes a %s with the typed reader outside a deserilized_with_orig_bytes capture: FixedTransaction keeps no original bytes for it, so from_bytes(tx).to_bytes() writes `null` (or re-encoded bytes) where the input had the part" % (F.key(fid), what), {"file": fn.get("file"), "line": c.line})
    rep.floor("typed decodes of preserved parts in the FixedTransaction decoder", 3, n_cap)
    # SET-total: a raw-bytes setter stores what it was given on every success path
    from collections import deque as _dq
    import mustpass as _mp
    rep.rule("SET-total", "every FixedTransaction setter that takes raw bytes (set_body, set_witness_set, set_auxiliary_data) stores the bytes field on every path to its success return: no early return on `decoded value == current value` - two encodings of an equal value are different bytes and different hashes")
    n_set = 0
    for nm_, fld_ in (("set_body", "body_bytes"), ("set_auxiliary_data", "auxiliary_bytes"), ("set_witness_set", "witness_set")):
        fid_ = fn1(rep, F, "FixedTransaction::" + nm_)
        if not fid_:
            continue
        fn_ = F.fns[fid_]
        ffs_ = ff.FnFields(F, fid_)
        st_ = {s_[2] for s_ in ffs_.stores_to(FT, fld_)}
        if not st_:
            rep.lost("FixedTransaction::%s no longer stores %s" % (nm_, fld_))
            continue
        n_set += 1
        rep.inst("SET-total")
        succ_ = {i_: [x_ for x_ in _mp._succs(fn_, i_) if x_ is not None and not fn_["bbs"][x_]["c"]] for i_ in range(len(fn_["bbs"])) if not fn_["bbs"][i_]["c"]}
        oks_ = {bi for bi, kind, loc in _mp.success_stores(F, fid_) if kind == "ok"}
        if not oks_:
            # a setter returning () : every return counts
            oks_ = {i_ for i_ in succ_ if fn_["bbs"][i_]["t"][1] == "ret"}
        dq, seen_ = _dq([0]), {0}
        bad = False
        while dq:
            x_ = dq.popleft()
            if x_ in st_:
                continue
            if x_ in oks_:
                bad = True
                break
            for y_ in succ_.get(x_, []):
                if y_ not in seen_:
                    seen_.add(y_)
                    dq.append(y_)
        if bad:
            rep.violation("SET-total", "FixedTransaction::%s" % nm_, "FixedTransaction::%s can return Ok without storing %s: given another encoding of an equal value (tag 258 added or dropped, an indefinite length, a wider integer head) it keeps the old bytes and the old hash, and signatures added afterwards sign the old hash" % (nm_, fld_), {})
    rep.floor("raw-bytes setters of FixedTransaction", 3, n_set)
    # EXACT-raw: caller-supplied raw parts are exactly one item
    rep.rule("EXACT-raw", "every public FixedTransaction function that stores caller-supplied bytes verbatim (body_bytes / auxiliary_bytes taken from a slice argument) decodes them through a function whose success return is dominated by `consumed position == length`: a raw part followed by extra bytes would be written back inside the transaction array (`84 <body> 00 a0 f5 f6` - five items in an array of four)")
    def _exact_guarded(fid_):
        fn_ = F.fns[fid_]
        org_ = ff.Origins(F, fid_)
        for bi, kind, loc in _mp.success_stores(F, fid_):
            for s_, edge, d in _mp.dominating_guards(F, fid_, bi, org_):
                if d["kind"] == "bin" and d["op"] in ("Ne", "Eq"):
                    both = d["lhs"] + d["rhs"]
                    if any(x.startswith("call:") and "Cursor::<T>::position" in x for x in both) and any(x.startswith("call:") and x.split("@")[0].endswith("::len") for x in both):
                        if (d["op"] == "Ne" and edge == "0") or (d["op"] == "Eq" and edge != "0"):
                            return True
        return False
    guarded_ = {fid_ for fid_, fn_ in F.fns.items() if "/tests/" not in fn_["file"] and not F.is_derived(fid_) and fn_["file"].endswith("fixed_tx.rs") and _exact_guarded(fid_)}
    n_ex = 0
    for fid_, fn_ in F.fns.items():
        if F.is_derived(fid_) or "/tests/" in fn_["file"] or fn_.get("vis") != "pub" or not F.key(fid_).startswith("FixedTransaction::"):
            continue
        ffs_ = ff.FnFields(F, fid_)
        org_ = ff.Origins(F, fid_)
        ops_ = []
        for fld_ in ("body_bytes", "auxiliary_bytes"):
            for s_ in ffs_.stores_to(FT, fld_):
                ops_.append((fld_, s_[4]))
            for a_ in ffs_.aggregates_of(FT):
                ops_.append((fld_, agg_operand(F, a_, FT, fld_)))
        for fld_, op_ in ops_:
            o_ = _origins_any(org_, op_)
            args_ = {x for x in o_ if x.startswith("arg:")}
            if not args_:
                continue
            n_ex += 1
            rep.inst("EXACT-raw")
            ok_ = False
            for c in F.calls(fid_):
                if (c.to or "") in guarded_:
                    ao_ = set()
                    for a_ in fn_["bbs"][c.bb]["t"][3]:
                        ao_ |= org_.of_operand(a_)
                    if args_ & ao_:
                        ok_ = True
            if not ok_:
                rep.violation("EXACT-raw", "%s|%s" % (F.key(fid_), fld_), "%s stores the caller's bytes as %s without checking that they are exactly one item: %s(body ++ 00) is accepted and to_bytes() writes `84 a3.. 00 a0 f5 f6`, an array of four holding five items, which the library itself cannot read back" % (F.key(fid_), fld_, F.key(fid_)), {})
    rep.floor("verbatim stores of caller-supplied raw parts", 6, n_ex)
    # (2) readers of the hash
    rep.rule("FT-hash-read", "transaction_hash() returns the tx_hash field; sign_and_add_* pass that field to the witness constructor")
    fid = fn1(rep, F, "FixedTransaction::transaction_hash")
    if fid:
        rep.inst("FT-hash-read")
        org = ff.Origins(F, fid)
        o = org.of_place("_0")
        if "field:%s.tx_hash" % FT not in o:
            rep.violation("FT-hash-read", "transaction_hash", "FixedTransaction::transaction_hash does not return the tx_hash field", {"origins": sorted(o)})
    for nm, maker in (("sign_and_add_vkey_signature", "make_vkey_witness"), ("sign_and_add_icarus_bootstrap_signature", "make_icarus_bootstrap_witness"), ("sign_and_add_daedalus_bootstrap_signature", "make_daedalus_bootstrap_witness")):
        fid = fn1(rep, F, "FixedTransaction::" + nm)
        if not fid:
            continue
        rep.inst("FT-hash-read")
        org = ff.Origins(F, fid)
        found = False
        for c in F.calls(fid):
            if (c.to or "").endswith("::" + maker):
                found = True
                o = org.of_operand(c.args[0])
                if "field:%s.tx_hash" % FT not in o:
                    rep.violation("FT-hash-read", nm, "FixedTransaction::%s signs something other than the stored tx_hash" % nm, {"origins": sorted(o)})
        if not found:
            rep.violation("FT-hash-read", nm + "|no-maker", "FixedTransaction::%s no longer calls %s" % (nm, maker), {})
    # (3) writer emits raw bytes
    rep.rule("FT-writer", "FixedTransaction's writer emits body_bytes and auxiliary_bytes with write_raw_bytes and never calls the typed TransactionBody / AuxiliaryData serializer")
    fid = fn1(rep, F, "<FixedTransaction as cbor_event::Serialize>::serialize")
    if fid:
        org = ff.Origins(F, fid)
        raw_from = set()
        for c in F.calls(fid):
            to = c.to or ""
            rep.inst("FT-writer")
            if to.endswith("write_raw_bytes"):
                o = set()
                for a in c.args[1:]:
                    o |= org.of_operand(a)
                for x in o:
                    if x.startswith("call:") and ("body_bytes_ref" in x or "auxiliary_bytes_ref" in x):
                        raw_from.add("body" if "body_bytes_ref" in x else "aux")
                    if x == "field:%s.body_bytes" % FT:
                        raw_from.add("body")
                    if x == "field:%s.auxiliary_bytes" % FT:
                        raw_from.add("aux")
            if "TransactionBody as cbor_event::Serialize>::serialize" in F.key(to) or "AuxiliaryData as cbor_event::Serialize>::serialize" in F.key(to):
                rep.violation("FT-writer", "typed-serializer", "FixedTransaction's writer calls the typed serializer %s: body / auxiliary data would be re-encoded instead of copied" % F.key(to), {"callee": to})
        for need in ("body", "aux"):
            if need not in raw_from:
                rep.violation("FT-writer", "raw-" + need, "FixedTransaction's writer does not emit the stored %s bytes through write_raw_bytes" % need, {})
        for acc, fld in (("FixedTransaction::body_bytes_ref", "body_bytes"), ("FixedTransaction::auxiliary_bytes_ref", "auxiliary_bytes")):
            af = fn1(rep, F, acc)
            if af:
                rep.inst("FT-writer")
                o = ff.Origins(F, af).of_place("_0")
                if "field:%s.%s" % (FT, fld) not in o:
                    rep.violation("FT-writer", acc, "%s does not return the %s field" % (acc, fld), {"origins": sorted(o)})
    # (4) witness-set pairing
    rep.rule("WS-pairing", "a function that mutates typed witness field X inside a FixedTxWitnessesSet stores None to raw part X (exactly X) in a block that every return passes; raw parts are otherwise written only by the decoder")
    raw_fields = [f["name"] for f in F.adts[WSR]["variants"][0]["fields"]] if WSR in F.adts else []
    rep.floor("raw part fields", 8, len(raw_fields))
    mutators = 0
    for fid in F.fns:
        if F.is_derived(fid):
            continue
        ffs = ff.FnFields(F, fid)
        key = F.key(fid)
        fn = F.fns[fid]
        raw_st = {}
        for s in ffs.stores:
            if s[0] == WSR and s[5]:
                raw_st.setdefault(s[1], []).append(s)
        # typed mutation through the fixed wrapper: place path FixedTxWitnessesSet.tx_witnesses_set . TransactionWitnessSet.X
        mutated = set()
        for s in ffs.stores:
            fs = ff.place_fields(s[6])
            names = [(a, f) for (a, v, f) in fs]
            if (FWS, "tx_witnesses_set") in names:
                for (a, f) in names:
                    if a == WS:
                        mutated.add(f)
        for pl, bi in ffs.mut_borrows:
            fs = ff.place_fields(pl)
            names = [(a, f) for (a, v, f) in fs]
            if (FWS, "tx_witnesses_set") in names:
                for (a, f) in names:
                    if a == WS:
                        mutated.add(f)
        if not raw_st and not mutated:
            continue
        rep.inst("WS-pairing")
        if key in ("serialization::witnesses::transaction_witnesses_set::deserialize::{closure#0}", "TransactionWitnessSetRaw::new"):
            continue  # decoder / constructor: covered by WS-capture
        if key == "FixedTxWitnessesSet::new" and not raw_st:
            rep.allow("WS-pairing")
            continue  # constructor: only sets force_original_cbor_set_type on freshly decoded sets, raw parts are handed in
        mutators += 1
        cleared = set(raw_st)
        if mutated != cleared:
            missing = sorted(mutated - cleared)
            extra = sorted(cleared - mutated)
            msg = "%s mutates typed witness field(s) %s but clears raw part(s) %s" % (key, sorted(mutated), sorted(cleared))
            if missing:
                msg += "; stale original bytes of %s would be written back and the change lost" % missing
            if extra:
                msg += "; untouched field(s) %s would be re-encoded instead of copied byte-for-byte" % extra
            rep.violation("WS-pairing", key, msg, {"function": fid, "file": fn["file"], "mutated": sorted(mutated), "cleared": sorted(cleared)})
            continue
        for f, sts in raw_st.items():
            for s in sts:
                rv = s[4]
                org = ff.Origins(F, fid)
                for _ in range(4):
                    if isinstance(rv, list) and rv[0] == "use" and rv[1][0] in ("c", "m"):
                        ds = [d for d in org.defs.get(rv[1][1].split("|")[0], []) if d[0] == "st" and d[2] == rv[1][1]]
                        if len(ds) == 1:
                            rv = ds[0][3]
                            continue
                    break
                is_none = isinstance(rv, list) and rv[0] == "agg" and rv[2].endswith("option::Option") and rv[3] == "None"
                if not is_none:
                    rep.violation("WS-pairing", "%s|%s-not-none" % (key, f), "%s stores something other than None into raw part %s" % (key, f), {"function": fid})
            # cleared IFF changed.  When the typed field is changed through a set `add` that reports whether anything was added (bool),
            # the clearing store sits exactly on the `true` edge of that result: cleared => changed (dominated by the edge) and
            # changed => cleared (straight-line from the edge to the store).  Otherwise the store must be on every path to return.
            import mustpass as mp
            blocks = {s[2] for s in sts}
            adds = [c for c in F.calls(fid) if (c.to or "").rsplit("::", 1)[-1] == "add" and (c.to or "").split("::")[-2].lower().startswith(("vkeywitnesses", "bootstrapwitnesses")) and F.fns.get(c.to, {}).get("locals", [""])[0] == "bool"]
            gated = False
            for c in adds:
                g = mp.bool_gate(F, fid, c)
                if not g:
                    continue
                fb, tb = g
                ok_dom = all(mp.dominated_by(fn, b, tb) for b in blocks)
                cur = tb
                reach = False
                for _ in range(12):
                    if cur in blocks:
                        reach = True
                        break
                    su = [x for x in F.succ(fn, cur, with_unwind=False) if x is not None]
                    if len(su) != 1:
                        break
                    cur = su[0]
                if ok_dom and reach:
                    gated = True
                elif ok_dom and not reach:
                    rep.violation("WS-pairing", "%s|%s-changed-not-cleared" % (key, f), "%s: after a witness was really added to %s some path does not clear the raw bytes: the stale original bytes would be written and the new witness lost" % (key, f), {"function": fid})
                    gated = True
            if gated:
                continue
            if adds:
                rep.violation("WS-pairing", "%s|%s-cleared-without-change" % (key, f), "%s clears the original bytes of %s even when the witness was already present and nothing was added: an untouched, non-canonically encoded field is then re-encoded instead of copied byte-for-byte" % (key, f), {"function": fid})
                continue
            rets = [bi for bi, bb in enumerate(fn["bbs"]) if bb["t"][1] == "ret"]
            for r in rets:
                doms = set(dominators(fn, r)) | {r}
                if not (blocks & doms):
                    rep.violation("WS-pairing", "%s|%s-conditional" % (key, f), "%s clears raw part %s only on some paths" % (key, f), {"function": fid})
        rep.sample({"rule": "WS-pairing", "mutator": key, "mutates": sorted(mutated), "clears": sorted(cleared)})
    rep.floor("witness mutators through FixedTxWitnessesSet", 2, mutators)
    # (5) decoder capture + writer pairing (HIR)
    ws_capture(rep, F)
    ws_writer(rep, F)
    # (6) byte-capturing readers
    def _delegated(fid_):
        """the byte capture of this reader was split into crate helpers that receive the reader (seek / copy live there): the three
        CAP rules read one function body and cannot follow - ANCHOR-LOST, not a verdict"""
        fn_ = F.fns[fid_]
        own = any((c.to or "").endswith("to_vec") for c in F.calls(fid_))  # the copy itself
        helpers = [c.to for c in F.calls(fid_) if (c.to or "") in F.fns and c.info.get("local") and "{closure" not in (c.to or "") and any((k.to or "").endswith("to_vec") for k in F.calls(c.to))]
        return (not own) and bool(helpers)
    rep.rule("CAP-range", "the captured byte range is [before, after): both from seek(Current(0)) on the same reader, the decode call sits between them in dominance order, and the slice length is after - before")
    for key in ("serialization::utils::deserilized_with_orig_bytes", "<PlutusData as serialization::traits::Deserialize>::deserialize"):
        fid = fn1(rep, F, key)
        if not fid:
            continue
        rep.inst("CAP-range")
        if _delegated(fid):
            rep.lost("%s delegates the byte capture to helper functions: CAP-range / CAP-always / MF cannot follow (re-anchor)" % key)
            continue
        cap_range(rep, F, fid, key)
    # (6b) the captured bytes reach the result on EVERY success path (no path returns the value without them)
    from ruleutil import run_mustflow
    run_mustflow(rep, F, [e_ for e_ in [
        {"fn": "serialization::utils::deserilized_with_orig_bytes", "sources": ["slice::<impl [T]>::to_vec"], "what": "the copied original bytes"},
        {"fn": "<PlutusData as serialization::traits::Deserialize>::deserialize", "sources": ["slice::<impl [T]>::to_vec"], "what": "the copied original bytes of the datum"},
    ] if not (F.by_key(e_["fn"]) and _delegated(F.by_key(e_["fn"])[0]))])
    import mustpass as mp
    rep.rule("CAP-always", "every success return of a byte-capturing reader is dominated by the call that copies the original bytes (no success path skips the capture)")
    for key in ("serialization::utils::deserilized_with_orig_bytes", "<PlutusData as serialization::traits::Deserialize>::deserialize"):
        fid = fn1(rep, F, key)
        if not fid:
            continue
        if _delegated(fid):
            continue
        caps = [c.bb for c in F.calls(fid) if (c.to or "").endswith("to_vec")]
        fn = F.fns[fid]
        for bi, kind, loc in mp.success_stores(F, fid):
            if kind not in ("ok", "agg") and not kind.startswith("call:"):
                continue
            rep.inst("CAP-always")
            if not any(mp.dominated_by(fn, bi, cb) for cb in caps):
                rep.violation("CAP-always", key, "%s has a success return (%s) that is not dominated by the copy of the original bytes: some decoded values come back without their bytes and are re-encoded canonically" % (key, facts.loc_str(loc, fn)), {"function": fid})
    # (6c) R-break: inside byte-capturing readers every nested container reader consumes its own Break
    rep.rule("R-break", "in the call closure of the byte-capturing readers (PlutusData, witness-set parts) every raw.array() / raw.map() has its indefinite case discharged on the SAME length value: a Break read (special / is_break_tag) under a switch on that length, or check_len_indefinite(raw, len) - otherwise the reader stops one byte early and the captured original bytes lose their closing 0xff")
    roots_ = F.by_key("<PlutusData as serialization::traits::Deserialize>::deserialize") + F.by_key("serialization::witnesses::transaction_witnesses_set::deserialize")
    seen_, work_ = set(), list(roots_)
    while work_:
        f_ = work_.pop()
        if f_ in seen_:
            continue
        seen_.add(f_)
        for sub_ in [f_] + [c for c in F.fns if c.startswith(f_ + "::{closure")]:
            for c_ in F.calls(sub_):
                if c_.to in F.fns and c_.to not in seen_ and ("serializ" in c_.to or "Deserialize" in c_.to):
                    work_.append(c_.to)
    n_rb = 0
    for f_ in sorted(seen_):
        for sub_ in [f_] + [c for c in F.fns if c.startswith(f_ + "::{closure")]:
            fn_ = F.fns[sub_]
            org_ = None
            for c_ in F.calls(sub_):
                to_ = c_.to or ""
                if not (to_.endswith("Deserializer::<R>::array") or to_.endswith("Deserializer::<R>::map")):
                    continue
                n_rb += 1
                rep.inst("R-break")
                org_ = org_ or ff.Origins(F, sub_)
                tag_ = "call:%s@%d" % (to_, c_.bb)
                ok_ = False
                for c2 in F.calls(sub_):
                    t2 = c2.to or ""
                    if t2.endswith("check_len_indefinite"):
                        o_ = set()
                        for a_ in fn_["bbs"][c2.bb]["t"][3]:
                            o_ |= org_.of_operand(a_)
                        if tag_ in o_:
                            ok_ = True
                    if t2.endswith("Deserializer::<R>::special") or t2.endswith("is_break_tag"):
                        for s_, edge_, d_ in mp.dominating_guards(F, sub_, c2.bb, org_):
                            if d_["kind"] == "discr" and tag_ in d_["of"]:
                                ok_ = True
                if not ok_:
                    rep.violation("R-break", "%s|%s" % (F.key(sub_), to_.rsplit("::", 1)[-1]), "%s opens a container with raw.%s() (%s) and never consumes the Break of its indefinite form: nested in a byte-preserving value, the enclosing reader captures the bytes without the closing 0xff and re-emits different bytes / another hash" % (F.key(sub_), to_.rsplit("::", 1)[-1], facts.loc_str(fn_["bbs"][c_.bb]["t"][0], fn_)), {})
    rep.floor("container opens inside byte-capturing reader closures", 25, n_rb)
    # (6d) RAW-written: a witness-set field whose original bytes are kept is written in every state
    import common as _common
    from e2_all import Inventory as _Inv, short_ty as _short
    rep.rule("RAW-written", "in every presence state of the byte-preserving witness-set writer in which the original bytes of field X are kept (and the typed field is present), key(X) is written: an untouched field never disappears on re-serialisation (E2 states)")
    names_ = {v: int(k) for k, v in _common.load_table("conway_cddl.json")["record_maps"]["TransactionWitnessSet"].items()}
    inv_ = _Inv(F)
    wf_ = [fid for T, fid in inv_.ser.items() if _short(T) == "FixedTxWitnessesSet"]
    if len(wf_) != 1:
        rep.lost("FixedTxWitnessesSet writer not found")
    else:
        r_ = inv_.result(wf_[0])
        if r_["status"] != "ok":
            rep.lost("FixedTxWitnessesSet writer not derivable by E2 (%s)" % r_.get("why"))
        else:
            n_states = 0
            reported = set()
            for c_ in r_["containers"]:
                if c_["kind"] != "map" or "true_atoms" not in c_:
                    continue
                n_states += 1
                ta = set(c_["true_atoms"])
                for x_, k_ in names_.items():
                    typed = "plutus_scripts" if x_.startswith("plutus_scripts_v") else x_
                    # atoms are discovered lazily: a raw part the writer never consulted in this state may be present
                    raw_false = [a for a in c_["false_atoms"] if a.startswith("some:") and a.endswith("raw_parts.%s" % x_)]
                    typed_atom = [a for a in ta if a.startswith("some:") and a.endswith("tx_witnesses_set.%s" % typed)]
                    if not raw_false and typed_atom:
                        rep.inst("RAW-written")
                        if k_ not in c_["keys"] and x_ not in reported:
                            reported.add(x_)
                            rep.violation("RAW-written", "FixedTxWitnessesSet|%s" % x_, "the byte-preserving witness-set writer keeps the original bytes of %s but does not write key %d in the state %s: a transaction whose witness set contains e.g. an empty %s field (`%02x 80`) loses the field when re-serialised" % (x_, k_, sorted(a for a in ta if "raw_parts" not in a)[:4], x_, k_), {})
            rep.floor("presence states of the byte-preserving witness-set writer", 40, n_states)
    # (7) PlutusData co-update + writer
    rep.rule("PD-coupdate", "every function that stores PlutusData.datum also stores original_bytes (so stale bytes can never describe a different datum)")
    npd = 0
    for fid in F.fns:
        if F.is_derived(fid):
            continue
        ffs = ff.FnFields(F, fid)
        d = ffs.stores_to(PD, "datum", exact=False)
        o = ffs.stores_to(PD, "original_bytes", exact=False)
        if ffs.aggregates_of(PD):
            npd += 1
            rep.inst("PD-coupdate")
        if d or o:
            rep.inst("PD-coupdate")
            if d and not o:
                rep.violation("PD-coupdate", F.key(fid), "%s writes PlutusData.datum but leaves original_bytes in place: the datum would still serialise to the old bytes" % F.key(fid), {"function": fid})
    rep.floor("PlutusData constructors (struct literals)", 5, npd)
    rep.rule("PD-writer", "PlutusData's writer matches on original_bytes and emits the bytes verbatim when present")
    fid = fn1(rep, F, "<PlutusData as cbor_event::Serialize>::serialize")
    if fid:
        rep.inst("PD-writer")
        hir = F.hir.get(fid)
        ok = False
        for n in H.walk(hir["body"]):
            if n[0] == "match" and (H.path_str(n[2]) or "").endswith("self.original_bytes"):
                for pat, g, body in n[3]:
                    v = H.pat_variant(pat) or ""
                    if v.endswith("Some"):
                        b = H.pat_bindings(pat)
                        for c in H.calls_in(body, "write_raw_bytes"):
                            if b and H.path_str(c[5][0]) == b[0]:
                                ok = True
        if not ok:
            rep.violation("PD-writer", "shape", "PlutusData's writer no longer emits original_bytes verbatim in the Some arm", {"function": fid})
    from ruleutil import close_len_rule
    close_len_rule(rep, F)
    from ruleutil import dup_key_rule
    dup_key_rule(rep, F)
    return rep.finish(
        EXPLANATION,
        ["byte identity of a raw-copied part follows from write_raw_bytes(arg) writing arg unchanged (cbor_event)", "re-encoded (touched) parts are C01's concern"],
        ["rustc MIR/HIR (csl-facts)", "cbor_event::Serializer::write_raw_bytes"],
    )


def cap_range(rep, F, fid, key):
    fn = F.fns[fid]
    seeks = [c for c in F.calls(fid) if (c.to or "").endswith("Seek::seek")]
    org = ff.Origins(F, fid)
    # seek(Current(0)) calls: argument aggregate SeekFrom::Current
    cur = []
    for c in seeks:
        o = c.args[1] if len(c.args) > 1 else None
        pl = o[1] if o and o[0] in ("c", "m") else None
        ds = org.defs.get(pl.split("|")[0], []) if pl else []
        for kind, bi, dest, rv in ds:
            if kind == "st" and rv[0] == "agg" and rv[2].endswith("SeekFrom") and rv[3] == "Current":
                cur.append(c)
    if len(cur) != 2:
        rep.violation("CAP-range", key + "|seeks", "%s: expected two seek(SeekFrom::Current(0)) position probes, found %d" % (key, len(cur)), {"function": fid})
        return
    first, second = sorted(cur, key=lambda c: c.bb)
    # decode call: an indirect call or a *::deserialize call dominated by first and dominating second
    dec = [c for c in F.calls(fid) if c.to is None or (c.to or "").endswith("::deserialize")]
    ok = False
    for d in dec:
        if first.bb in dominators(fn, d.bb) and d.bb in dominators(fn, second.bb):
            ok = True
    if not ok:
        rep.violation("CAP-range", key + "|order", "%s: the decode call is not bracketed by the two position probes" % key, {"function": fid})
    # slice: Index call whose range end derives from Sub of the two seek results
    idx = [c for c in F.calls(fid) if "ops::Index" in (c.to or "")]
    good = False
    for c in idx:
        o = set()
        for a in c.args[1:]:
            o |= org.of_operand(a)
        n_seek = len({x for x in o if x.startswith("call:") and x.split("@")[0].endswith("Seek::seek")})
        if n_seek >= 2 and second.bb in dominators(fn, c.bb):
            good = True
    if not good:
        rep.violation("CAP-range", key + "|slice", "%s: the captured slice is not bounded by (after - before) of the two probes" % key, {"function": fid})
    # Sub operands order: after - before
    for bi, bb in enumerate(fn["bbs"]):
        for st in bb["st"]:
            if st[1] == "=" and st[3][0] == "bin" and st[3][1] in ("Sub", "SubWithOverflow"):
                a = org.of_operand(st[3][2])
                b = org.of_operand(st[3][3])
                sa = {x for x in a if x.endswith("Seek::seek@%d" % second.bb)}
                sb = {x for x in b if x.endswith("Seek::seek@%d" % first.bb)}
                if not (sa and sb):
                    rep.violation("CAP-range", key + "|sub", "%s: the byte count is not computed as after - before" % key, {"function": fid})


RAW_KEY = {"vkeys": 0, "native_scripts": 1, "bootstraps": 2, "plutus_scripts_v1": 3, "plutus_data": 4, "redeemers": 5, "plutus_scripts_v2": 6, "plutus_scripts_v3": 7}


def ws_capture(rep, F):
    rep.rule("WS-capture", "in the witness-set decoder each key arm stores raw part X from the deserilized_with_orig_bytes call whose typed result is stored to local X, under key number k(X); raw parts are stored only under with_raw_parts")
    fid = fn1(rep, F, "serialization::witnesses::transaction_witnesses_set::deserialize")
    if not fid:
        return
    hir = F.hir[fid]
    arms_seen = 0
    for n in H.walk(hir["body"]):
        if n[0] != "match":
            continue
        sc = H.strip(n[2])
        if H.is_node(sc) and sc[0] == "try":
            sc = H.strip(sc[2])
        if not (H.is_node(sc) and sc[0] == "mcall" and sc[2] == "unsigned_integer"):
            continue
        for pat, g, body in n[3]:
            alts = H.pat_alternatives(pat)
            if len(alts) != 1 or alts[0][0] != "plit":
                continue
            k = int(alts[0][1][1])
            arms_seen += 1
            rep.inst("WS-capture")
            # let (typed, raw) = deserilized_with_orig_bytes(...)?
            typed = rawv = None
            stores = {}
            for x in H.walk(body):
                if x[0] == "block":
                    for st in x[2]:
                        if st[0] == "let" and st[3] is not None:
                            init = H.strip(st[3])
                            txt = str(init)
                            if "deserilized_with_orig_bytes" in txt and st[2][0] == "ptuple":
                                b = H.pat_bindings(st[2])
                                if len(b) == 2:
                                    typed, rawv = b
                if x[0] == "assign":
                    lhs = H.path_str(x[2])
                    rhs = H.strip(x[3])
                    val = None
                    if H.is_node(rhs) and rhs[0] == "call" and (rhs[2] or "").endswith("Some") and rhs[4]:
                        val = H.path_str(rhs[4][0])
                    stores[lhs] = val
            raw_targets = [l for l in stores if l and l.startswith("raw_part.")]
            typed_targets = [l for l, v in stores.items() if v == typed and l and not l.startswith("raw_part.")]
            if len(raw_targets) != 1 or len(typed_targets) != 1 or stores[raw_targets[0]] != rawv:
                rep.violation("WS-capture", "key%d|shape" % k, "witness-set decoder arm for key %d does not store (typed, raw) of one deserilized_with_orig_bytes call" % k, {"stores": stores})
                continue
            rf = raw_targets[0].split(".", 1)[1]
            tl = typed_targets[0]
            if rf != tl and not (rf.startswith("plutus_scripts") and tl == rf):
                rep.violation("WS-capture", "key%d|mismatch" % k, "witness-set decoder arm for key %d stores the raw bytes as `%s` but the typed value as `%s`" % (k, rf, tl), {})
            if RAW_KEY.get(rf) != k:
                rep.violation("WS-capture", "key%d|number" % k, "witness-set decoder stores raw part %s under key %d (expected %s)" % (rf, k, RAW_KEY.get(rf)), {})
    rep.floor("witness-set decoder key arms", 8, arms_seen)


def ws_writer(rep, F):
    rep.rule("WS-writer", "in the witness-set writer the raw bytes emitted under key k come from raw part X with k = k(X), inside the `if let Some(_) = &wit_set.X` of the same X")
    fid = fn1(rep, F, "serialization::witnesses::transaction_witnesses_set::serialize")
    if not fid:
        return
    hir = F.hir[fid]
    seen = 0

    def visit(node, field_ctx):
        nonlocal seen
        if not H.is_node(node):
            return
        if node[0] == "if" and H.is_node(node[2]) and node[2][0] == "letx":
            init = node[2][3]
            ip = H.path_str(init)
            txt = str(init)
            newctx = field_ctx
            if ip and ip.startswith("wit_set."):
                newctx = ip.split(".", 1)[1]
            # raw source: raw_parts...map(|x| x.F.as_ref()).flatten()
            rawf = None
            for c in H.walk(init):
                if c[0] == "closure":
                    p = H.path_str(c[4])
                    if p and "." in p:
                        rawf = p.split(".")[1]
            if rawf and "raw_parts" in txt:
                seen += 1
                rep.inst("WS-writer")
                keys = [H.lit_int(c[5][0]) for c in H.calls_in(node[3], "write_unsigned_integer") if c[5]]
                raws = list(H.calls_in(node[3], "write_raw_bytes"))
                binds = H.pat_bindings(node[2][2])
                ok_raw = any(H.path_str(r[5][0]) in binds for r in raws)
                want = RAW_KEY.get(rawf)
                ctx_ok = field_ctx == rawf or (rawf.startswith("plutus_scripts_v") and field_ctx == "plutus_scripts")
                if keys != [want] or not ok_raw or not ctx_ok:
                    rep.violation("WS-writer", rawf, "witness-set writer: raw part %s is emitted under key(s) %s inside the block of field %s (expected key %s, field %s)" % (rawf, keys, field_ctx, want, rawf), {})
            visit(init, field_ctx)
            visit(node[3], newctx)
            if node[4] is not None:
                visit(node[4], newctx if newctx != field_ctx and False else field_ctx if ip and ip.startswith("wit_set.") else newctx)
            return
        for c in H.children(node):
            visit(c, field_ctx)

    visit(hir["body"], None)
    rep.floor("raw-part emission sites in the witness-set writer", 8, seen)
