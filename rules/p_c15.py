import re
"""C15 — stand-alone fee functions: exact arithmetic, rounding direction, constants, overflow-to-error (E3 + mustflow + callee reachability)."""
import common
import facts
import hirq as H
import e3_arith as e3
from ruleutil import find_fn, run_mustflow
from fractions import Fraction

EXPLANATION = (
    "Overflow-to-error and shape clauses, decided for all arguments: (MF) flow-sensitive must-flow on MIR - on every success path "
    "the linear fee is derived from the size, the coefficient and the constant; the script fee from memory, steps, both prices, the "
    "rational sum and the ceiling conversion, over the summed execution units of all redeemers; the reference-script fee from the "
    "size, the per-byte price, the tier quotient and the floor conversion; each Rational operation from both operands; the integer "
    "conversions (to_bignum_ceil / to_bignum_floor) from the fraction itself through div_ceil / div_floor and the fallible as_u64 - "
    "so a constant fast path, a dropped term or a result that bypasses the 64-bit check is reported; (ROUND) the script fee reaches "
    "the ceiling conversion and never the floor one, the reference-script fee the floor conversion and never the ceiling one; "
    "(K) the tier multiplier is 6/5 and the stride 25 600 bytes; (E3) fees.rs and rational.rs contain no raw integer operator, lossy "
    "cast or saturating call outside the audited list and all integer arithmetic is BigInt / checked_*; the only narrowing is "
    "BigInt::as_u64 returning Option, whose None arm is an Err. Not decided: equality with the ledger's tier-by-tier definition "
    "(an algebraic identity of the closed form)."
)


def callees_closure(F, fid, depth=4):
    seen = {fid}
    fr = [fid]
    for _ in range(depth):
        nx = []
        for f in fr:
            if f not in F.fns:
                continue
            for c in F.calls(f):
                if c.to and c.to not in seen:
                    seen.add(c.to)
                    nx.append(c.to)
        fr = nx
    return seen


def check(rep, F, tier, replay=None):
    mf = common.load_table("mustflow.json")["entries"]
    run_mustflow(rep, F, [e for e in mf if "C15" in e["props"]])
    # ROUND
    rep.rule("ROUND", "script fee -> to_bignum_ceil only; reference-script fee -> to_bignum_floor only")
    for key, must, mustnot in (("fees::calculate_ex_units_ceil_cost", "Rational::to_bignum_ceil", "Rational::to_bignum_floor"), ("fees::min_ref_script_fee", "Rational::to_bignum_floor", "Rational::to_bignum_ceil")):
        fid = find_fn(rep, F, key)
        if not fid:
            continue
        rep.inst("ROUND")
        cl = {F.key(x) for x in callees_closure(F, fid)}
        if must not in cl:
            rep.violation("ROUND", "%s|missing|%s" % (key, must), "%s no longer rounds through %s" % (key, must), {})
        if mustnot in cl:
            rep.violation("ROUND", "%s|wrong|%s" % (key, mustnot), "%s reaches %s: wrong rounding direction" % (key, mustnot), {})
    for key, callee in (("Rational::to_bignum_ceil", "BigInt::div_ceil"), ("Rational::to_bignum_floor", "BigInt::div_floor"), ("BigInt::div_ceil", "div_ceil"), ("BigInt::div_floor", "div_floor")):
        fid = find_fn(rep, F, key)
        if not fid:
            continue
        rep.inst("ROUND")
        names = {(c.to or "").rsplit("::", 1)[-1] for c in F.calls(fid)}
        want = callee.rsplit("::", 1)[-1]
        other = "div_floor" if want == "div_ceil" else "div_ceil"
        if want not in names or other in names:
            rep.violation("ROUND", "%s|%s" % (key, want), "%s must divide with %s (calls: %s)" % (key, want, sorted(n for n in names if n.startswith("div"))), {})
    # K
    rep.rule("K-tier", "tier multiplier = 6/5, stride = 25 600 bytes")
    fid = find_fn(rep, F, "fees::min_ref_script_fee")
    if fid:
        rep.inst("K-tier")
        hir = F.hir[fid]
        mult = None
        stride = None
        for n in H.walk(hir["body"]):
            if n[0] == "call" and (n[2] or "").endswith("Rational::new") and len(n[4]) == 2:
                vals = []
                for a in n[4]:
                    v = None
                    for x in H.walk(a):
                        if H.lit_int(x) is not None:
                            v = H.lit_int(x)
                    vals.append(v)
                if all(v is not None for v in vals) and vals[1]:
                    mult = Fraction(vals[0], vals[1])
        for n in H.walk(hir["body"]):
            if n[0] == "block":
                for st in n[2]:
                    if st[0] == "let" and H.pat_bindings(st[2]) == ["size_increment"] and st[3] is not None:
                        stride = H.lit_int(st[3])
        if mult != Fraction(6, 5):
            rep.violation("K-tier", "multiplier", "the reference-script tier multiplier is %s, the ledger's is 6/5 (1.2)" % mult, {})
        if stride != 25600:
            rep.violation("K-tier", "stride", "the reference-script tier stride is %s bytes, the ledger's is 25 600" % stride, {})
        if mult == Fraction(6, 5) and stride == 25600:
            rep.sample({"rule": "K-tier", "multiplier": str(mult), "stride": stride})
    # E3 restricted to the fee files
    rep.rule("E3-fees", "no unaudited raw operator / lossy cast / saturating call in fees.rs, rational.rs")
    tab = {(e["fn"], e["kind"], e["detail"]): e for e in common.load_table("c14_allow.json")["entries"]}
    S, by = e3.sites(F)
    nfn = 0
    for fid, fn in F.fns.items():
        if fn["file"] in ("src/fees.rs", "src/rational.rs") and not F.is_derived(fid):
            nfn += 1
    rep.inst("E3-fees", nfn)
    for g, lst in sorted(by.items()):
        fn0 = F.fns[lst[0].fid]
        if fn0["file"] not in ("src/fees.rs", "src/rational.rs"):
            continue
        from e1_panicpath import allow_lookup as _al
        e, n_s = _al(tab, by, g)
        if e is None or n_s > e["count"] or e["disposition"] == "finding":
            rep.violation("E3-fees", "%s|%s|%s" % g, "unaudited arithmetic construct in the fee code: %s %s in %s at %s" % (g[1], g[2], g[0], facts.loc_str(lst[0].loc, fn0)), {})
    # as_u64 None -> Err: the conversions have an Err exit and no unwrap-like consumer of as_u64
    rep.rule("OVF", "a result that does not fit in 64 bits becomes Err: as_u64's Option is matched, never unwrapped / defaulted")
    for key in ("Rational::to_bignum_ceil", "Rational::to_bignum_floor"):
        fid = find_fn(rep, F, key)
        if not fid:
            continue
        rep.inst("OVF")
        bad = [c.to for c in F.calls(fid) if c.to and ("unwrap" in c.to or "Option::<T>::expect" in c.to)]
        import mustpass as mp
        errs = mp.error_stores(F, fid)
        okor = [c.to for c in F.calls(fid) if c.to and re.search(r"Option::<T>::(ok_or|ok_or_else)$", c.to)]  # as_u64().ok_or_else(|| error): None becomes Err
        if bad or len(errs) + len(okor) < 2:
            rep.violation("OVF", key, "%s no longer turns a non-representable result into an error (unwrap-like calls: %s, Err exits: %d)" % (key, bad, len(errs)), {})
    # WIDE-interm: only the final conversion narrows
    import re as _re
    rep.rule("WIDE-interm", "inside Rational (the exact arithmetic the script fee and the reference-script fee are computed in) only the two final conversions to_bignum_ceil / to_bignum_floor call a fixed-width narrowing or checked primitive (as_u64, BigNum::checked_*, uN::checked_* / wrapping / saturating, try_from / try_into): an intermediate such as price numerator x execution units may exceed 64 bits while the rounded fee fits (577/10000 x 2^64-1), so narrowing it turns a representable fee into an 'overflow' error")
    FINAL = ("Rational::to_bignum_ceil", "Rational::to_bignum_floor")
    NARROW = _re.compile(r"(::as_u64|::as_int|::as_u32|::checked_\w+|::wrapping_\w+|::saturating_\w+|::overflowing_\w+|TryFrom<.*>>::try_from|TryInto<.*>>::try_into|::clamped_sub|num_traits::cast::ToPrimitive>::to_\w+)$")
    n_r = 0
    for fid_, fn_ in F.fns.items():
        if not (fn_.get("self_adt") or "").endswith("rational::Rational") and not (fn_.get("parent_fn") or "").startswith("rational::"):
            continue
        if F.is_derived(fid_):
            continue
        n_r += 1
        rep.inst("WIDE-interm")
        key_ = F.key(fid_.split("::{closure")[0])
        if key_ in FINAL:
            continue
        for c_ in F.calls(fid_):
            if c_.to and NARROW.search(c_.to):
                rep.violation("WIDE-interm", "%s|%s" % (key_, c_.to.rsplit("::", 1)[-1]), "%s narrows an intermediate of the exact fee arithmetic with %s (%s): the product / sum can exceed 64 bits although the final rounded fee fits, so min_script_fee / calculate_ex_units_ceil_cost fail with 'overflow' for prices and unit totals whose fee is representable" % (key_, c_.to, facts.loc_str(c_.loc, fn_)), {})
    rep.floor("Rational methods inspected", 12, n_r)
    # RAT-alg: the fraction arithmetic is the fraction arithmetic
    import ratalg as _ra
    import fieldflow as _ffr
    rep.rule("RAT-alg", "every return path of Rational::add / sub / mul_ratio / div_ratio / mul_bignum / mul_usize yields numerator and denominator polynomials (over self = an/ad, the argument = bn/bd or k) that are the specified fraction - cross-multiplied equality of normal forms, under the substitutions the path's own branch conditions justify (`x.is_zero()` -> x = 0, `p == q` -> one symbol). Exact for all values at once: a shortcut that returns the right numerator over the wrong denominator (equal denominators: (an + bn) / (ad * bd)) is off by a factor ad although every test with coprime or unit denominators passes. A path guarded by `self is zero` is skipped only when every caller's receiver is Rational::one()")
    n_ra = 0
    for m_ in sorted(_ra.SPEC):
        ids_ = F.by_key("Rational::" + m_)
        if len(ids_) != 1 or ids_[0] not in F.hir:
            rep.lost("Rational::%s not found" % m_)
            continue
        try:
            res_ = _ra.check_method(F.hir[ids_[0]], m_)
        except _ra.NotAlgebraic as e_:
            rep.lost("Rational::%s is outside the polynomial fragment (%s)" % (m_, e_))
            continue
        for line_, subs_, N_, D_, ok_ in res_:
            n_ra += 1
            rep.inst("RAT-alg")
            if ok_:
                continue
            if any(sy == "an" and not rp for sy, rp in subs_):
                # premise: no caller can pass a zero receiver
                recv_ok, n_call = True, 0
                for cf, cfn in F.fns.items():
                    if "/tests/" in cfn["file"] or "tests::" in cf:
                        continue
                    for c_ in F.calls(cf):
                        if c_.to == ids_[0]:
                            n_call += 1
                            o_ = _ffr.Origins(F, cf).of_operand(cfn["bbs"][c_.bb]["t"][3][0])
                            srcs = {x.split("@")[0] for x in o_ if x.startswith("call:") or x.startswith("arg:") or x.startswith("field:")}
                            if not srcs or not all(x.endswith("Rational::one") for x in srcs):
                                recv_ok = False
                if recv_ok and n_call:
                    rep.allow("RAT-alg")
                    continue
            rep.violation("RAT-alg", "Rational::%s|%s" % (m_, ",".join("%s=%s" % (sy, _ra.pstr(rp)) for sy, rp in subs_) or "general"), "Rational::%s returns (%s) / (%s) on the path %s; that is not the %s of an/ad and %s: the script fee (calculate_ex_units_ceil_cost / min_script_fee) and the tiered reference-script fee are computed from a wrong fraction whenever that path is taken" % (m_, _ra.pstr(N_), _ra.pstr(D_), ("where " + ", ".join("%s = %s" % (sy, _ra.pstr(rp)) for sy, rp in subs_)) if subs_ else "taken by default", {"add": "sum", "sub": "difference", "mul_ratio": "product", "div_ratio": "quotient", "mul_bignum": "product", "mul_usize": "product"}[m_], "bn/bd" if m_ in ("add", "sub", "mul_ratio", "div_ratio") else "k"), {"line": line_})
    rep.floor("return paths of Rational arithmetic compared with their specification", 8, n_ra)
    # AS-u64: the fallible narrowing the fee functions end with is exact: None iff negative or >= 2^64
    rep.rule("AS-u64", "BigInt::as_u64 (the conversion behind to_bignum_ceil / to_bignum_floor) answers Some for every non-negative value below 2^64: either it matches the u64-digit count (0 or 1 digit -> Some) or it compares bits() with a constant that admits exactly 64 bits")
    fid = find_fn(rep, F, "BigInt::as_u64")
    if fid:
        rep.inst("AS-u64")
        from ruleutil import gate_limit
        fn = F.fns[fid]
        tos = [(c.to or "") for c in F.calls(fid)]
        if any(t.endswith("to_u64_digits") for t in tos) and not any(t.endswith("::bits") for t in tos):
            lits = set()
            for n_ in H.walk(F.hir[fid]["body"]):
                if n_[0] == "match":
                    sc = H.strip(n_[2])
                    if H.is_node(sc) and sc[0] == "mcall" and sc[2] == "len":
                        for pat, g, arm in n_[3]:
                            for alt in H.pat_alternatives(pat):
                                if alt and alt[0] == "plit" and alt[1][0] == "int" and "None" not in str(H.strip(arm))[:80]:
                                    lits.add(int(alt[1][1]))
                    # slice patterns over the digits: `[] => Some(..)`, `[digit] => Some(..)`
                    for pat, g, arm in n_[3]:
                        for alt in H.pat_alternatives(pat):
                            q = alt
                            while q and q[0] == "pref":
                                q = q[1]
                            if q and q[0] == "pslice" and not q[2] and "None" not in str(H.strip(arm))[:80]:
                                lits.add(len(q[1]))
            if not lits:
                rep.lost("BigInt::as_u64 decides on the u64 digits in a shape the rule does not read (neither a match on len() nor slice patterns)")
            elif lits != {0, 1}:
                rep.violation("AS-u64", "digits|%s" % sorted(lits), "BigInt::as_u64 answers Some for %s u64 digits; exactly 0 and 1 digit fit into a u64" % sorted(lits), {})
        elif any(t.endswith("::bits") for t in tos):
            lims = []
            for bi, bb in enumerate(fn["bbs"]):
                for st in bb["st"]:
                    if st[1] == "=" and (st[2] == "_0" or st[2].startswith("_0|")) and st[3][0] == "agg" and st[3][3] == "Some":
                        lims.append(gate_limit(F, fid, bi)[0])
            if not lims or any(l is None for l in lims):
                rep.lost("BigInt::as_u64 compares bits() in a shape the rule cannot bound (re-anchor AS-u64)")
            elif any(l != 64 for l in lims):
                rep.violation("AS-u64", "bits|%s" % sorted(set(lims)), "BigInt::as_u64 answers Some only for values of at most %s bits; every value below 2^64 (64 bits) fits: script / reference-script fees in [2^%d, 2^64) are reported as overflow although the result is representable" % (sorted(set(lims)), min(lims)), {})
        else:
            rep.lost("BigInt::as_u64 neither matches the digit count nor compares bits() (re-anchor AS-u64)")
    # ERR-hand: the fee functions fail only where the arithmetic fails
    rep.rule("ERR-hand", "the fee functions (min_fee, min_script_fee, min_ref_script_fee, tier_ref_script_fee, calculate_ex_units_ceil_cost, min_fee_for_size, min_no_script_fee) build an error of their own only at the audited sites (invalid multiplier / zero size increment): every other failure is a propagated checked-arithmetic or conversion error, so a result that fits into 64 bits is returned - a hand-written `this cannot fit` guard on the inputs reports overflow for results that do fit")
    ERR_OK = {"fees::tier_ref_script_fee": 1}
    n_e = 0
    for key_ in ("fees::min_fee", "fees::min_script_fee", "fees::min_ref_script_fee", "fees::tier_ref_script_fee", "fees::calculate_ex_units_ceil_cost", "fees::min_fee_for_size", "fees::min_no_script_fee"):
        ids_ = [f for f in F.fns if f.endswith(key_) and "/tests/" not in F.fns[f]["file"]]
        for fid_ in ids_:
            n_e += 1
            rep.inst("ERR-hand")
            cnt = 0
            for sub in [fid_] + [x for x in F.fns if x.startswith(fid_ + "::{closure")]:
                cnt += sum(1 for c in F.calls(sub) if (c.to or "").endswith("JsError::from_str") or (c.to or "").endswith("JsError::new"))
            if cnt > ERR_OK.get(key_, 0):
                rep.violation("ERR-hand", key_, "%s builds %d error(s) of its own (%d audited): a guard on the inputs such as `tiers >= 244 -> does not fit` is wrong for small prices - size 6 246 400 at 1/1 000 000 per byte has the exact fee 2 675 678 970 181 565 804, which fits into 64 bits" % (key_, cnt, ERR_OK.get(key_, 0)), {})
    rep.floor("fee functions inspected for hand-written errors", 6, n_e)
    return rep.finish(
        EXPLANATION,
        ["num-bigint's div_ceil / div_floor / pow are exact", "the closed-form geometric sum equals the tier-by-tier definition (not decided)"],
        ["rustc MIR/HIR (csl-facts)", "tables/mustflow.json", "tables/c14_allow.json"],
    )
