"""ACC: accumulator discipline in loops.

A user-named local that is initialised outside a loop, re-assigned inside a loop and flows into the function's result is an
accumulator.  Every in-loop assignment must be computed FROM the accumulator (acc = acc.checked_add(x)?): the backward origin slice
of the stored value has to contain the origins of the initial value.  `acc = x` inside the loop (overwrite) compiles, passes every
test with one contributing element, and silently forgets what was accumulated before."""
import sys

import fieldflow as ff


def loop_blocks(F, fn):
    n = len(fn["bbs"])
    idx = [None] * n
    low = [0] * n
    on = [False] * n
    st = []
    comps = []
    c = [0]
    sys.setrecursionlimit(20000)

    def succ(b):
        return [s for s in F.succ(fn, b, with_unwind=False) if s is not None and not fn["bbs"][s]["c"]]

    def go(v):
        idx[v] = low[v] = c[0]
        c[0] += 1
        st.append(v)
        on[v] = True
        for w in succ(v):
            if idx[w] is None:
                go(w)
                low[v] = min(low[v], low[w])
            elif on[w]:
                low[v] = min(low[v], idx[w])
        if low[v] == idx[v]:
            comp = []
            while True:
                w = st.pop()
                on[w] = False
                comp.append(w)
                if w == v:
                    break
            comps.append(comp)

    for v in range(n):
        if idx[v] is None and not fn["bbs"][v]["c"]:
            go(v)
    inloop = set()
    for comp in comps:
        if len(comp) > 1 or comp[0] in succ(comp[0]):
            inloop |= set(comp)
    return inloop


def accumulators(F, fid):
    """-> [(name, local, [(bb, origins_of_stored_value)] in-loop defs, init_origins)]"""
    fn = F.fns[fid]
    loops = loop_blocks(F, fn)
    if not loops:
        return []
    org = ff.Origins(F, fid)
    out = []
    ret_o = None
    for name, local in fn.get("names", []):
        if name in ("self", "iter", "residual", "val") or local in ("_0",) or not local[1:].isdigit():
            continue
        idxl = int(local[1:])
        nargs = fn.get("nargs")
        defs_in, defs_out = [], []
        for bi, bb in enumerate(fn["bbs"]):
            if bb["c"]:
                continue
            for st in bb["st"]:
                if st[1] == "=" and st[2] == local:
                    o = set()
                    tmp = ff.Origins.of_operand  # noqa
                    rv = st[3]
                    for op in _rv_ops(rv):
                        o |= org.of_operand(op)
                    (defs_in if bi in loops else defs_out).append((bi, o, rv))
            t = bb["t"]
            if t[1] == "call" and t[4] == local:
                o = set()
                for a in t[3]:
                    o |= org.of_operand(a)
                o.add("call:%s@%d" % (t[2].get("to") or "?", bi))
                (defs_in if bi in loops else defs_out).append((bi, o, ("call", t[2].get("to"))))
        if not defs_in or not defs_out:
            continue
        # must flow into the result
        if ret_o is None:
            ret_o = org.of_place("_0")
        init = set()
        for bi, o, rv in defs_out:
            init |= {x for x in o if x.startswith("call:") or x.startswith("arg:")}
            if rv[0] == "call":
                init.add("call:%s@%d" % (rv[1] or "?", bi))
        if not init:
            continue
        if not (init & ret_o):
            continue
        # a SUM accumulator: at least one in-loop update goes through checked / plain addition (a "best so far" variable that is
        # legitimately overwritten inside a loop is not judged)
        if not any(any(x.startswith("call:") and x.split("@")[0].rsplit("::", 1)[-1] in ("checked_add", "checked_sub", "checked_mul", "add", "sub") for x in o) for bi, o, rv in defs_in):
            continue
        out.append((name, local, defs_in, init))
    return out


def _rv_ops(rv):
    k = rv[0]
    if k in ("use", "repeat"):
        return [rv[1]]
    if k in ("ref", "rawptr"):
        return [["c", rv[2]]]
    if k == "cast":
        return [rv[2]]
    if k == "bin":
        return [rv[2], rv[3]]
    if k == "un":
        return [rv[2]]
    if k in ("discr", "deref"):
        return [["c", rv[1]]]
    if k == "agg":
        return list(rv[4])
    return []


def check(rep, F, fn_keys, floor=None):
    rep.rule("ACC", "every in-loop assignment to an accumulator that flows into the result is computed from the accumulator's previous value (no overwrite inside the loop)")
    n = 0
    for key in fn_keys:
        ids = F.by_key(key)
        if len(ids) != 1:
            rep.lost("accumulator anchor %s not found" % key)
            continue
        for sub in [ids[0]] + [c for c in F.fns if c.startswith(ids[0] + "::{closure")]:
            for name, local, defs_in, init in accumulators(F, sub):
                for bi, o, rv in defs_in:
                    n += 1
                    rep.inst("ACC")
                    if not (init & o):
                        fnr = F.fns[sub]
                        rep.violation("ACC", "%s|%s" % (F.key(sub), name), "%s: inside a loop `%s` is assigned a value that is not computed from `%s` itself (initialised from %s): what was accumulated in earlier iterations is dropped" % (F.key(sub), name, name, sorted(x.split("@")[0][5:] for x in init)[:2]), {"function": sub, "local": local})
    if floor is not None:
        rep.floor("in-loop accumulator updates judged", floor, n)
    return n
