"""E2 glue: inventory of CBOR writers / readers of the crate and one abstract interpretation of every writer root.

ser / de / deg / seg : self type -> function id of the cbor_event::Serialize / Deserialize / DeserializeEmbeddedGroup / SerializeEmbeddedGroup impl
roots                : every function that must emit complete items: trait writers, helpers nobody calls, and every function that creates a
                       local Serializer (to_bytes, hashing helpers, ...)
results              : fid -> e2_wireshape.analyse(...) result
"""
import sys

import e2_readers as R
import e2_wireshape as e2
import hirq as H

sys.setrecursionlimit(6000)

SER_TRAITS = ("cbor_event::Serialize", "cbor_event::se::Serialize")
DE_TRAITS = ("serialization::traits::Deserialize", "cbor_event::Deserialize", "cbor_event::de::Deserialize")


class Inventory:
    def __init__(self, F, thorough=False):
        self.F = F
        self.thorough = thorough
        self.ser, self.de, self.deg, self.seg = {}, {}, {}, {}
        for im in F.impls:
            t = im.get("trait") or ""
            if "/tests/" in im.get("file", ""):
                continue
            for m in im["methods"]:
                if m["id"] not in F.hir:
                    continue
                if t in SER_TRAITS and m["name"] == "serialize":
                    self.ser[im["self_ty"]] = m["id"]
                if t in DE_TRAITS and m["name"] == "deserialize":
                    self.de[im["self_ty"]] = m["id"]
                if t.endswith("DeserializeEmbeddedGroup") and m["name"] == "deserialize_as_embedded_group":
                    self.deg[im["self_ty"]] = m["id"]
                if t.endswith("SerializeEmbeddedGroup") and m["name"] == "serialize_as_embedded_group":
                    self.seg[im["self_ty"]] = m["id"]
        W = [k for k, h in F.hir.items() if any("cbor_event::se::Serializer<" in t for t in h["ptys"]) and "/tests/" not in h["file"]]
        called = set()
        for k in W:
            for sub in [k] + [c for c in F.fns if c.startswith(k + "::{closure")]:
                for c in F.calls(sub):
                    if c.to in F.hir and c.to != k:
                        called.add(c.to)
        self.writers = W
        self.creators = [k for k, h in F.hir.items() if "/tests/" not in h["file"] and k not in W and k in F.fns
                         and any((c.to or "").endswith("Serializer::<std::vec::Vec<u8>>::new_vec") for c in F.calls(k))]
        self.trait_roots = [k for k in W if F.fns[k].get("impl_trait") or k not in called]
        self.roots = self.trait_roots + self.creators
        self.summaries = {}
        self.results = {}

    def analyse_all(self):
        F = self.F
        for T, k in self.seg.items():
            r = e2.analyse(F, k, {}, max_runs=200000 if self.thorough else 20000, pairwise=self.thorough)
            self.results[k] = r
            tops = sorted(r["top"])
            self.summaries[k] = int(tops[0]) if r["status"] == "ok" and len(tops) == 1 and tops[0].isdigit() else None
        for k in self.roots:
            if k not in self.results:
                self.results[k] = e2.analyse(F, k, {}, max_runs=200000 if self.thorough else 20000, pairwise=self.thorough)  # embedded groups are inlined so that their items keep their field names
        return self.results

    def result(self, fid):
        if fid not in self.results:
            self.results[fid] = e2.analyse(self.F, fid, {}, max_runs=200000 if self.thorough else 20000, pairwise=self.thorough)
        return self.results[fid]

    # ---- readers --------------------------------------------------------------------------------
    def reader_fns(self, T, depth=2):
        """the reader of T and the crate-local plain functions / inherent methods it forwards the raw deserializer to"""
        F = self.F
        start = [x for x in (self.de.get(T), self.deg.get(T)) if x]
        out = list(start)
        frontier = list(start)
        for _ in range(depth):
            nxt = []
            for fid in frontier:
                for d in R.delegates(F, fid):
                    fn = F.fns.get(d)
                    if fn is None or d in out:
                        continue
                    it = fn.get("impl_trait") or ""
                    # follow only forwards that stay inside this type's own reader: plain fns, inherent methods of T, T's own embedded group
                    if it and not (fn.get("self_ty") == T and it.endswith("DeserializeEmbeddedGroup")):
                        continue
                    if not it and fn.get("self_ty") not in (None, T):
                        continue
                    if not d.startswith("serialization::") and fn.get("self_ty") != T:
                        continue
                    if d.rsplit("::", 1)[-1] in ("deserialize_and_check_index", "check_len", "check_index", "check_len_indefinite", "skip_set_tag", "skip_tag", "is_break_tag", "read_nint", "deserilized_with_orig_bytes"):
                        continue
                    out.append(d)
                    nxt.append(d)
            frontier = nxt
        return out


def short_ty(T):
    return T.rsplit("::", 1)[-1]


def field_of(desc):
    """'self.a.b' -> 'a' ; 'some(self.a)' -> 'a' ; 'self.0::Key.0' -> None"""
    if not isinstance(desc, str):
        return None
    d = desc.replace("some(", "").replace(")", "")
    if not d.startswith("self."):
        return None
    seg = d[5:].split(".")[0]
    if "::" in seg or seg.isdigit() or "(" in seg:
        return None
    return seg


def strip_lines(msg):
    import re
    return re.sub(r"(at |@)line \d+|at line \d+|@\d+", "", msg).replace("  ", " ")
