"""Finite ordering domain: evaluate a HIR expression that touches two named values only through comparisons and selection,
on each of the three orderings (a<b, a==b, a>b).  Used for the fee-request policy (C06)."""
import hirq as H

CMP = {"Lt": lambda x, y: x < y, "Le": lambda x, y: x <= y, "Gt": lambda x, y: x > y, "Ge": lambda x, y: x >= y, "Eq": lambda x, y: x == y, "Ne": lambda x, y: x != y}


class Unknown(Exception):
    pass


def ev(node, env):
    """env: name -> int.  Returns the int selected, or raises Unknown for shapes outside the domain."""
    node = H.strip(node)
    if not H.is_node(node):
        raise Unknown("non-node")
    k = node[0]
    if k == "path":
        p = H.path_str(node)
        if p in env:
            return env[p]
        raise Unknown("free name %s" % p)
    if k == "call" and (node[2] or "").endswith("Some") and len(node[4]) == 1:
        return ev(node[4][0], env)
    if k == "block":
        if node[2]:
            raise Unknown("statements in block")
        return ev(node[3], env)
    if k == "if":
        c = H.strip(node[2])
        if not (H.is_node(c) and c[0] == "binary" and c[2] in CMP):
            raise Unknown("condition is not a comparison")
        a = ev(c[3], env)
        b = ev(c[4], env)
        if CMP[c[2]](a, b):
            return ev(node[3], env)
        if node[4] is None:
            raise Unknown("if without else")
        return ev(node[4], env)
    if k == "ret":
        return ev(node[2], env)
    raise Unknown("expression kind %s" % k)


def policy_table(match_node, param):
    """match over TxBuilderFee -> {variant: {'lt':..,'eq':..,'gt':..}} with results named 'new'/'old'"""
    out = {}
    for pat, guard, body in match_node[3]:
        v = H.short(H.pat_variant(pat) or "_")
        binds = H.pat_bindings(pat)
        res = {}
        for name, (new, old) in (("lt", (1, 2)), ("eq", (2, 2)), ("gt", (3, 2))):
            env = {param: new}
            for b in binds:
                env[b] = old
            try:
                r = ev(body, env)
                if name == "eq":
                    res[name] = "same"
                else:
                    res[name] = "new" if r == new else "old"
            except Unknown as e:
                res[name] = "?" + str(e)
        out[v] = res
    return out
