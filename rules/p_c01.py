"""C01 — structural necessary conditions of the CBOR round trip (E2 wireshape + reader/writer sibling agreement)."""
import re

import common
import e2_readers as R
import e3_arith as e3
import hirq as H
from e2_all import Inventory, field_of, short_ty, strip_lines

EXPLANATION = (
    "Decides the part of the round trip whose truth is in the shape of the code, for every presence state rather than for sampled "
    "values; it does NOT decide value-level equality after decode (that quantifies over runtime values). E2 abstractly interprets the "
    "HIR of every CBOR writer root (all cbor_event::Serialize / SerializeEmbeddedGroup impls, every helper that receives a Serializer "
    "and is not inlined elsewhere, every function that creates a local Serializer) over presence atoms (Option is Some, collection is "
    "non-empty, enum variant, opaque bool) with collection sizes as symbols, enumerating each group of atoms exhaustively: (W-len) in "
    "every abstract state each definite array/map receives exactly the number of items it declares, every indefinite container is "
    "closed by exactly one Break, (W-one) a Serialize impl emits exactly one top-level item and an embedded group a state-independent "
    "count. Sibling agreement between each writer and its reader: (RW-keys) for record maps the writer's key set equals the reader's, "
    "key k is written from the field the reader stores key k into, keys the reader treats as mandatory are written in every state, "
    "each optional arm counts itself once against CBORReadLen and finish() is reached; (RW-arity) the writer's declared array lengths "
    "are accepted by the reader's check_len / read_elems; (RW-order) fixed records are read in the order they are written; (RW-index) "
    "the index constants / variant-to-index table of the writer are those the reader (and the dispatching reader) uses; (RW-tag) every "
    "tag a writer emits appears in its reader; (PAIR) every type with a writer has a reader, every to_bytes has from_bytes/to_hex/"
    "from_hex and the hex entry points are hex::encode/decode around the byte entry points; (NEG-int) cbor_event's i64-narrowing "
    "negative_integer() is never used; (SER-cast) no unaudited lossy integer cast inside (de)serialisers."
)

ASSUMPTIONS = [
    "cbor_event's Serializer writes exactly one data item per write_unsigned_integer / write_negative_integer / write_bytes / write_text / write_special(non-Break) call, and opens a container per write_array / write_map (read from its source, not analysed)",
    "a `.serialize(serializer)` call on a value of a type outside the crate (u32, u64, String, Vec<u8>) writes one item",
    "iteration over a collection visits exactly len() elements (the size symbol N(path) of a collection is one value per abstract state)",
]


def wkey(F, fid):
    return F.key(fid)


# ---------------------------------------------------------------------------------------------------------------------
def rule_wlen(rep, F, inv, aud):
    rep.rule("W-len", "in every abstract presence state each definite container receives exactly the number of items it declares; indefinite containers are closed by one Break")
    rep.rule("W-one", "a Serialize impl emits exactly one top-level item in every state; an embedded group a state-independent count; a local Serializer holds one complete item when finalised")
    und_ok = aud.get("underivable", {})
    prob_ok = aud.get("problems", {})
    derivable = 0
    runs = 0
    for fid in inv.roots + list(inv.seg.values()):
        r = inv.result(fid)
        k = wkey(F, fid)
        if r["status"] != "ok":
            if k in und_ok:
                rep.allow("W-len")
                rep.inst("W-len", 1, nontrivial=False)
                continue
            rep.lost("writer %s is outside the fragment E2 can interpret (%s): its length discipline is undecided (not a verdict) - extend the engine or audit it in tables/e2_audited.json" % (k, r.get("why")))
            continue
        derivable += 1
        runs += r["runs"]
        rep.inst("W-len", r["runs"], nontrivial=bool(r["containers"]))
        for (rule, line), (msg, state, w) in sorted(r["problems"].items(), key=str):
            if rule == "W-min":
                continue  # C03
            key = "%s|%s" % (k, strip_lines(msg))
            if key in prob_ok:
                rep.allow(rule)
                continue
            rep.violation(rule, key, "%s: %s [smallest state: %s]" % (k, msg, {a: v for a, v in state.items() if v not in (False,)} or "all absent"), {"function": k, "line": line, "state": state})
        fn = F.fns.get(fid) or {}
        it = fn.get("impl_trait") or ""
        tops = sorted(r["top"])
        rep.inst("W-one")
        if it in ("cbor_event::Serialize", "cbor_event::se::Serialize") and fid in inv.ser.values():
            if tops != ["1"]:
                rep.violation("W-one", "%s|top=%s" % (k, ",".join(tops)), "%s emits %s top-level items (a Serialize impl must emit exactly one in every state)" % (k, " or ".join(tops)), {})
        elif it.endswith("SerializeEmbeddedGroup"):
            if len(tops) != 1 or not tops[0].isdigit():
                rep.violation("W-one", "%s|top=%s" % (k, ",".join(tops)), "embedded group %s emits a state-dependent number of items (%s): the enclosing array length cannot match in every state" % (k, " or ".join(tops)), {})
    rep.floor("writer roots analysed by E2", 440, derivable)
    rep.floor("abstract states enumerated", 3000, runs)
    rep.extra["e2"] = {"roots": len(inv.roots), "trait_writers": len(inv.ser), "embedded_groups": len(inv.seg), "creators": len(inv.creators), "derivable": derivable, "abstract_states": runs,
                       "audited_underivable": sorted(und_ok)}


# ---------------------------------------------------------------------------------------------------------------------
def record_containers(r, kind="map"):
    cs = [c for c in r["containers"] if c["kind"] == kind and c.get("sid", 0) == 0 and c.get("depth") == 1]
    return cs


def find_reader_table(F, inv, T):
    for fid in inv.reader_fns(T):
        t = R.reader_table(F, fid)
        if t and t["keys"]:
            return fid, t
    return None, None


def rule_rw_keys(rep, F, inv):
    rep.rule("RW-keys", "record maps: writer key set == reader key set; key k is written from the field the reader stores it into; reader-mandatory keys are written in every state; every optional arm does read_elems(1); finish() is reached")
    judged = 0
    for T, wf in sorted(inv.ser.items()):
        r = inv.result(wf)
        if r["status"] != "ok":
            continue
        maps = [c for c in record_containers(r, "map") if c["keys"] and all(isinstance(k, int) for k in c["keys"])]
        if not maps:
            continue
        rf, t = find_reader_table(F, inv, T)
        if t is None:
            continue
        st = short_ty(T)
        judged += 1
        wkeys = {}
        for c in maps:
            for k, v in zip(c["keys"], c["vals"] + [None] * len(c["keys"])):
                wkeys.setdefault(k, set()).add(v)
        always = set.intersection(*[set(c["keys"]) for c in record_containers(r, "map")]) if record_containers(r, "map") else set()
        rkeys = t["keys"]
        rep.inst("RW-keys", len(set(wkeys) | set(rkeys)))
        for k in sorted(set(wkeys) - set(rkeys)):
            rep.violation("RW-keys", "%s|key %d|written-not-read" % (st, k), "%s: the writer emits map key %d (from %s) but the reader has no arm for it: the decoded value loses the field or decoding fails" % (st, k, sorted(x for x in wkeys[k] if x)), {})
        for k in sorted(set(rkeys) - set(wkeys)):
            rep.violation("RW-keys", "%s|key %d|read-not-written" % (st, k), "%s: the reader accepts map key %d (into `%s`) but no writer state emits it: a decoded value re-encodes to different bytes" % (st, k, rkeys[k]["local"]), {})
        # key -> field agreement
        inv_struct = {}
        for f, l in (t["struct"] or {}).items():
            if l:
                inv_struct.setdefault(l, f)
        for k in sorted(set(wkeys) & set(rkeys)):
            loc = rkeys[k]["local"]
            rname = inv_struct.get(loc, loc)
            wnames = set()
            for v in wkeys[k]:
                if isinstance(v, str) and v.startswith("container@"):
                    ln = int(v.split("@")[1])
                    for c in r["containers"]:
                        if c["line"] == ln and isinstance(c["declared"], str):
                            for ident in re.findall(r"[a-z_][a-z_0-9]*", c["declared"]):
                                wnames.add(ident)
                elif isinstance(v, str):
                    seg = v.replace("some(", "").replace(")", "").split(".")
                    wnames.add(seg[-1] if len(seg) > 1 else seg[0])
            wnames -= {"self", "some", "elems", "collect", "scripts", "view", "version", "N"}
            if not wnames or not rname:
                continue
            rep.inst("RW-keys")
            if not any(rname == w or rname.startswith(w + "_") or w.startswith(rname + "_") for w in wnames):
                rep.violation("RW-keys", "%s|key %d|field" % (st, k), "%s: map key %d is written from %s but the reader stores key %d into `%s`: the two fields are exchanged by a round trip" % (st, k, sorted(wnames), k, rname), {})
        # mandatory
        for k in sorted(t["mandatory"]):
            rep.inst("RW-keys")
            if k not in always:
                rep.violation("RW-keys", "%s|key %d|mandatory" % (st, k), "%s: the reader rejects input without key %d but the writer omits it in some state" % (st, k), {})
        zero = [k for k, e in rkeys.items() if e["read_elems"] == 0]
        rep.inst("RW-keys")
        if len(zero) > (t["upfront"] or 0) or ((t["upfront"] or 0) > len(zero) and not t.get("has_array")):
            rep.violation("RW-keys", "%s|read_elems|%s" % (st, ",".join(str(k) for k in sorted(zero))), "%s: reader arms for keys %s do not count themselves against the declared map length (read_elems) and only %d entries are counted up front: a definite-length map written by the library is rejected by finish(), or an over-long one accepted" % (st, sorted(zero), t["upfront"] or 0), {})
        for k, e in sorted(rkeys.items()):
            if e["read_elems"] > 1:
                rep.violation("RW-keys", "%s|read_elems>1|%d" % (st, k), "%s: reader arm for key %d counts %d entries for one key" % (st, k, e["read_elems"]), {})
        rep.inst("RW-keys")
        if not t["finish"]:
            rep.violation("RW-keys", "%s|finish" % st, "%s: the reader never calls CBORReadLen::finish(): a declared map length larger than the entries present is accepted" % st, {})
        rep.sample({"rule": "RW-keys", "type": st, "writer_keys": sorted(wkeys), "reader_keys": sorted(rkeys), "mandatory": sorted(t["mandatory"]), "always_written": sorted(always)})
    rep.floor("record maps with writer and reader key tables compared", 5, judged)


# ---------------------------------------------------------------------------------------------------------------------
def reader_facts(F, inv, T):
    out = {"lens": [], "read_elems": [], "index_refs": set(), "orders": [], "fns": []}
    for fid in inv.reader_fns(T):
        a = R.array_reader(F, fid)
        if a is None:
            continue
        out["fns"].append(fid)
        out["lens"] += [x for x in a["lens"] if x is not None]
        out["read_elems"] += [x for x in a["read_elems"] if x is not None]
        out["index_refs"] |= a["index_refs"]
        if a["struct"] and a["order"]:
            out["orders"].append((fid, a))
    return out


def subset_sums(xs):
    s = {0}
    for x in xs:
        s |= {y + x for y in s}
    return s - {0}


def rule_rw_arity(rep, F, inv):
    rep.rule("RW-arity", "every array length the writer can declare is accepted by the reader's check_len / read_elems bookkeeping")
    judged = 0
    for T, wf in sorted(inv.ser.items()):
        r = inv.result(wf)
        if r["status"] != "ok":
            continue
        arrs = [c for c in record_containers(r, "array") if c["declared"].isdigit()]
        if not arrs:
            continue
        lw = {int(c["declared"]) for c in arrs}
        rf = reader_facts(F, inv, T)
        st = short_ty(T)
        if rf["lens"]:
            judged += 1
            rep.inst("RW-arity", len(lw))
            for n in sorted(lw - set(rf["lens"])):
                rep.violation("RW-arity", "%s|len %d" % (st, n), "%s: the writer declares an array of %d items but the reader only accepts length %s (check_len): the library cannot decode its own output" % (st, n, sorted(set(rf["lens"]))), {})
            for n in sorted(set(rf["lens"]) - lw):
                rep.sample({"rule": "RW-arity", "type": st, "note": "reader also accepts length %d (never written)" % n})
        elif rf["read_elems"]:
            judged += 1
            rep.inst("RW-arity", len(lw))
            ok = subset_sums(rf["read_elems"])
            for n in sorted(lw - ok):
                rep.violation("RW-arity", "%s|len %d" % (st, n), "%s: the writer declares an array of %d items but the reader's read_elems bookkeeping can only account for %s" % (st, n, sorted(ok)), {})
    rep.floor("array records whose declared length is compared with the reader", 40, judged)


def rule_rw_order(rep, F, inv):
    rep.rule("RW-order", "fixed records: the reader consumes the fields in the order the writer emits them (field names through the reader's struct literal)")
    judged = 0
    for T, wf in sorted(inv.ser.items()):
        r = inv.result(wf)
        if r["status"] != "ok":
            continue
        rf = reader_facts(F, inv, T)
        if not rf["orders"]:
            continue
        st = short_ty(T)
        arrs = [c for c in record_containers(r, "array") if c["declared"].isdigit()]
        for c in arrs:
            worder = []
            for it in c["items"]:
                f = field_of(it)
                if f and f not in worder:
                    worder.append(f)
            if len(worder) < 2:
                continue
            for fid, a in rf["orders"]:
                inv_struct = {l: f for f, l in a["struct"].items() if l}
                rorder = []
                for names, callee in a["order"]:
                    for nm in names:
                        if nm in inv_struct and inv_struct[nm] not in rorder:
                            rorder.append(inv_struct[nm])
                common_f = [f for f in worder if f in rorder]
                if len(common_f) < 2:
                    continue
                judged += 1
                rep.inst("RW-order")
                rsub = [f for f in rorder if f in common_f]
                if rsub != common_f:
                    rep.violation("RW-order", "%s|%s" % (st, ">".join(common_f)), "%s: the writer emits fields in the order %s but %s reads them in the order %s: a round trip exchanges or mis-decodes them" % (st, common_f, F.key(fid), rsub), {})
                break
    rep.floor("fixed records whose field order is compared", 30, judged)


def discr_of(F, variant_path_or_name, enum_hint=None):
    for path, a in F.adts.items():
        if "IndexNames" not in path and (enum_hint is None or not path.endswith(enum_hint)):
            continue
        for v in a.get("variants", []):
            if v["name"] == variant_path_or_name and (enum_hint is None or path.endswith(enum_hint)):
                return v["discr"]
    return None


def rule_rw_index(rep, F, inv):
    rep.rule("RW-index", "the leading index constant(s) a writer emits are the ones its reader checks; a dispatching reader sends index k to the type whose writer emits k; variant <-> index tables of enum writers and readers agree")
    judged = 0
    # (a) IndexNames based records
    windex = {}
    for T, wf in sorted(inv.ser.items()):
        r = inv.result(wf)
        if r["status"] != "ok":
            continue
        iw = set()
        for c in record_containers(r, "array"):
            if c["items"] and isinstance(c["items"][0], str) and c["items"][0].startswith("#") and c["items"][0][1:].isdigit():
                iw.add(int(c["items"][0][1:]))
        windex[T] = iw
        rf = reader_facts(F, inv, T)
        if not rf["index_refs"] or not iw:
            continue
        enum_names = set()
        ir = set()
        for v in rf["index_refs"]:
            d = None
            for path, a in F.adts.items():
                if path.endswith("IndexNames"):
                    for var in a.get("variants", []):
                        if var["name"] == v:
                            d = var["discr"]
            if d is not None:
                ir.add(d)
        judged += 1
        rep.inst("RW-index")
        st = short_ty(T)
        if iw != ir:
            rep.violation("RW-index", "%s|writer=%s|reader=%s" % (st, sorted(iw), sorted(ir)), "%s: the writer emits leading index %s but its reader checks for %s" % (st, sorted(iw), sorted(ir)), {})
    # (b) dispatching readers over IndexNames
    for T, rfid in sorted(list(inv.deg.items()) + list(inv.de.items())):
        h = F.hir.get(rfid)
        if h is None:
            continue
        for n in H.walk(h["body"]):
            if n[0] != "match" or "IndexNames" not in str(n[5] if len(n) > 5 else ""):
                continue
            for pat, g, arm in n[3]:
                v = H.pat_variant(pat)
                if not v or "IndexNames::" not in v:
                    continue
                vn = v.rsplit("::", 1)[-1]
                d = None
                for path, a in F.adts.items():
                    if v.startswith(path + "::"):
                        for var in a["variants"]:
                            if var["name"] == vn:
                                d = var["discr"]
                target = None
                for x in H.walk(arm):
                    if x[0] == "call" and (x[2] or "").endswith("deserialize_as_embedded_group") and x[2] in F.fns:
                        target = F.fns[x[2]].get("self_ty")
                if d is None or target is None or target not in windex:
                    continue
                judged += 1
                rep.inst("RW-index")
                if d not in windex[target]:
                    rep.violation("RW-index", "%s|dispatch %s->%s" % (short_ty(T), vn, short_ty(target)), "%s: index %d (%s) is dispatched to the reader of %s, whose writer emits index %s" % (short_ty(T), d, vn, short_ty(target), sorted(windex[target])), {})
    # (c) literal dispatch: variant <-> index
    for T, wf in sorted(inv.ser.items()):
        r = inv.result(wf)
        if r["status"] != "ok":
            continue
        wtab = {}
        for c in record_containers(r, "array"):
            if c["items"] and isinstance(c["items"][0], str) and c["items"][0].startswith("#") and c["items"][0][1:].isdigit() and c.get("variants"):
                k = int(c["items"][0][1:])
                vs = tuple(sorted(set(c["variants"].values())))
                wtab.setdefault(k, set()).add(vs)
        if not wtab:
            continue
        rfid, t = find_reader_table(F, inv, T)
        if t is None:
            continue
        st = short_ty(T)
        for k, vsets in sorted(wtab.items()):
            e = t["keys"].get(k)
            judged += 1
            rep.inst("RW-index")
            if e is None:
                rep.violation("RW-index", "%s|index %d|no-arm" % (st, k), "%s: the writer emits leading index %d but the reader has no arm for it" % (st, k), {})
                continue
            rnames = {x.rsplit("::", 1)[-1] for x in (e.get("ctors") or []) + (e.get("unit_ctors") or [])}
            if not rnames:
                continue
            for vs in vsets:
                missing = [v for v in vs if isinstance(v, str) and v not in rnames]
                if missing and len(missing) == len([v for v in vs if isinstance(v, str)]):
                    rep.violation("RW-index", "%s|index %d|variant %s" % (st, k, "+".join(str(v) for v in vs)), "%s: variant %s is written with leading index %d but the reader builds %s for index %d" % (st, "/".join(str(v) for v in vs), k, sorted(rnames), k), {})
    rep.floor("index agreements compared", 50, judged)


# ---------------------------------------------------------------------------------------------------------------------
def rule_rw_tag(rep, F, inv):
    rep.rule("RW-tag", "every semantic tag value a writer emits is a literal the reader of the same type mentions (or the reader goes through the set-tag helper for 258)")
    judged = 0
    consts = {k: v for k, v in F.consts.items()}
    for T, wf in sorted(inv.ser.items()):
        r = inv.result(wf)
        if r["status"] != "ok":
            continue
        tags = {c["tag"] for c in r["containers"] if c.get("sid", 0) == 0 and c.get("depth") == 1 and isinstance(c["tag"], int)}
        tags |= {t for t in r["tags"] if isinstance(t, int)} if not r["containers"] else set()
        if not tags:
            continue
        lits = set()
        helper258 = False
        for fid in inv.reader_fns(T, depth=2):
            h = F.hir.get(fid)
            if h is None:
                continue
            for x in H.walk(h["body"]):
                v = H.lit_int(x)
                if v is not None:
                    lits.add(v)
                if x[0] == "match":
                    for pat, g, arm in x[3]:
                        for alt in H.pat_alternatives(pat):
                            if alt and alt[0] == "plit" and alt[1][0] == "int":
                                lits.add(int(alt[1][1]))
                if x[0] == "call" and (x[2] or "").rsplit("::", 1)[-1] in ("skip_set_tag", "skip_set_tag_wit_with_info", "skip_set_tag_with_info"):
                    helper258 = True
                if x[0] == "path" and isinstance(x[2], list) and x[2][0] == "def" and x[2][1] in ("AssocConst", "Const"):
                    cv = None
                    for ck, c in consts.items():
                        if ck.endswith(x[2][2].rsplit("::", 1)[-1]) and (x[2][2].rsplit("::", 2)[-2] in ck):
                            cv = c.get("val")
                    if cv is not None and str(cv).lstrip("-").isdigit():
                        lits.add(int(cv))
        st = short_ty(T)
        for tg in sorted(tags):
            judged += 1
            rep.inst("RW-tag")
            if tg in lits or (tg == 258 and helper258):
                continue
            rep.violation("RW-tag", "%s|tag %d" % (st, tg), "%s: the writer emits tag %d but the reader of %s never mentions that value" % (st, tg, st), {"reader_literals": sorted(lits)[:20]})
    rep.floor("writer tags compared with readers", 6, judged)


# ---------------------------------------------------------------------------------------------------------------------
def rule_pair(rep, F, inv, aud):
    rep.rule("PAIR", "every type with a CBOR writer has a reader and vice versa; every to_bytes has from_bytes, to_hex and from_hex; hex entry points are hex::encode/decode around the byte entry points of the same type")
    ok_unpaired = aud.get("unpaired", {})
    for T in sorted(set(inv.ser) | set(inv.de)):
        rep.inst("PAIR")
        if T in inv.ser and T in inv.de:
            continue
        st = short_ty(T)
        if st in ok_unpaired or T in ok_unpaired:
            rep.allow("PAIR")
            continue
        rep.violation("PAIR", "%s|%s" % (st, "no-reader" if T in inv.ser else "no-writer"), "%s has a CBOR %s but no %s" % (st, "writer" if T in inv.ser else "reader", "reader" if T in inv.ser else "writer"), {})
    rep.floor("types with both a CBOR writer and reader", 160, len(set(inv.ser) & set(inv.de)))
    # byte / hex entry points
    methods = {}
    for im in F.impls:
        if im.get("trait") or "/tests/" in im.get("file", ""):
            continue
        for m in im["methods"]:
            if m["name"] in ("to_bytes", "from_bytes", "to_hex", "from_hex"):
                methods.setdefault(im["self_ty"], {})[m["name"]] = m["id"]
    n_full = 0

    def callees(fid):
        cs = set()
        for sub in [fid] + [c for c in F.fns if c.startswith(fid + "::{closure")]:
            cs |= {c.to or "" for c in F.calls(sub)}
        cs.discard("")
        return cs

    for T, ms in sorted(methods.items()):
        st = short_ty(T)
        if T not in inv.ser:
            continue
        for a_, b_ in (("to_bytes", "from_bytes"), ("to_hex", "from_hex"), ("from_bytes", "to_bytes"), ("from_hex", "to_hex")):
            if a_ in ms:
                rep.inst("PAIR")
                if b_ not in ms and "%s|%s" % (st, b_) not in aud.get("entry_points", {}):
                    rep.violation("PAIR", "%s|entry-points|%s-without-%s" % (st, a_, b_), "%s has %s but no %s" % (st, a_, b_), {})
        if "to_bytes" not in ms or ms["to_bytes"] not in F.fns:
            continue
        tb = callees(ms["to_bytes"])
        if not any(c.endswith("new_vec") for c in tb):
            continue  # raw (non-CBOR) byte form: keys, hashes, signatures - not a CBOR entry point
        if inv.ser[T] not in tb:
            rep.inst("PAIR")
            rep.violation("PAIR", "%s|to_bytes" % st, "%s::to_bytes does not call the type's own CBOR writer" % st, {})
        if "to_hex" in ms and ms["to_hex"] in F.fns:
            rep.inst("PAIR")
            th = callees(ms["to_hex"])
            if not (tb <= th and any("hex::encode" in c for c in th)) and not (ms["to_bytes"] in th and any("hex::encode" in c for c in th)):
                rep.violation("PAIR", "%s|to_hex" % st, "%s::to_hex is not hex::encode of what to_bytes produces (to_bytes calls %s, to_hex calls %s)" % (st, sorted(H.short(c) for c in tb)[:6], sorted(H.short(c) for c in th)[:6]), {})
            else:
                n_full += 1
        if "from_hex" in ms and "from_bytes" in ms and ms["from_hex"] in F.fns and ms["from_bytes"] in F.fns:
            rep.inst("PAIR")
            fb = {c for c in callees(ms["from_bytes"]) if c in F.fns or "Deserializer" in c}
            fh = callees(ms["from_hex"])
            if not ((fb <= fh or ms["from_bytes"] in fh) and any("hex::decode" in c for c in fh)):
                rep.violation("PAIR", "%s|from_hex" % st, "%s::from_hex is not from_bytes(hex::decode(..)) (from_bytes calls %s, from_hex calls %s)" % (st, sorted(H.short(c) for c in fb)[:6], sorted(H.short(c) for c in fh)[:6]), {})
            if T in inv.de and inv.de[T] not in callees(ms["from_bytes"]) and "%s|from_bytes" % st not in aud.get("entry_points", {}):
                rep.violation("PAIR", "%s|from_bytes" % st, "%s::from_bytes does not call the type's own CBOR reader (calls %s)" % (st, sorted(H.short(c) for c in fb)[:6]), {})
    rep.floor("CBOR types whose to_hex is hex::encode of the to_bytes body", 120, n_full)


def rule_negint(rep, F):
    rep.rule("NEG-int", "cbor_event's Deserializer::negative_integer (narrows a CBOR nint to i64) is not called; negative integers are read through read_nint (i128)")
    n = 0
    users = 0
    for fid, fn in F.fns.items():
        if "/tests/" in fn["file"]:
            continue
        for c in F.calls(fid):
            to = c.to or ""
            if to.endswith("::negative_integer") and "Deserializer" in to:
                rep.inst("NEG-int")
                rep.violation("NEG-int", "%s" % F.key(fid), "%s reads a negative integer with cbor_event's negative_integer(): values below -2^63 that the writer emits as a plain nint decode to a different number" % F.key(fid), {})
            if to.endswith("serialization::utils::read_nint"):
                users += 1
                rep.inst("NEG-int")
    rep.floor("readers going through read_nint", 2, users)


def rule_cast(rep, F, aud):
    rep.rule("SER-cast", "no lossy integer cast (narrowing / sign-changing `as`) inside a CBOR writer or reader unless audited")
    allowed = aud.get("casts", {})
    seen = {}
    total = 0
    for fid, fn in F.fns.items():
        if F.is_derived(fid) or "/tests/" in fn["file"]:
            continue
        it = fn.get("impl_trait") or ""
        last = fid.rsplit("::", 1)[-1]
        base = fid.split("::{closure")[0]
        bit = (F.fns.get(base) or {}).get("impl_trait") or ""
        if it.startswith("serde::") or bit.startswith("serde::"):
            continue
        if not (fn["file"].startswith("src/serialization/") or "Serialize" in it + bit or "Deserialize" in it + bit):
            continue
        for bb in fn["bbs"]:
            if bb["c"]:
                continue
            for st in bb["st"]:
                if st[1] == "=" and st[3][0] == "cast" and st[3][1] == "IntToInt":
                    total += 1
                    k = e3.cast_lossy(st[3][3], st[3][4]) if not e3.const_cast_exact(st[3][2], st[3][4]) else None
                    if k:
                        key = "%s|%s->%s" % (F.key(base), st[3][3], st[3][4])
                        seen[key] = seen.get(key, 0) + 1
    rep.inst("SER-cast", total, nontrivial=True)
    for key, n in sorted(seen.items()):
        if key in allowed and n <= allowed[key].get("count", 1):
            rep.allow("SER-cast", n)
            continue
        rep.violation("SER-cast", key, "lossy integer cast %s (%d site(s)) inside a CBOR (de)serialiser: a value outside the target range is written / read as a different number" % (key, n), {})
    rep.floor("integer casts inspected in (de)serialisers", 80, total)


def rule_inverse_tables(rep, F):
    import piecewise as pw
    rep.rule("RW-inverse", "the compact Plutus constructor tag functions of writer and reader are inverse piecewise-affine tables (exact interval comparison)")
    a = F.by_key("ConstrPlutusData::alternative_to_compact_cbor_tag")
    b = F.by_key("ConstrPlutusData::compact_cbor_tag_to_alternative")
    if len(a) != 1 or len(b) != 1:
        rep.lost("compact constructor tag functions not found")
        return
    try:
        ta, tb = pw.table(F, a[0]), pw.table(F, b[0])
    except pw.NotPiecewise as e:
        rep.lost("compact constructor tag functions are no longer piecewise-affine tables (%s)" % e)
        return
    for (t1, t2, n1, n2) in ((ta, tb, "alternative_to_compact_cbor_tag", "compact_cbor_tag_to_alternative"), (tb, ta, "compact_cbor_tag_to_alternative", "alternative_to_compact_cbor_tag")):
        for lo, hi, r in t1:
            if r[0] != "affine":
                continue
            rep.inst("RW-inverse")
            ilo, ihi = lo + r[1], hi + r[1]
            ok = any(l2 <= ilo and ihi <= h2 and r2 == ("affine", -r[1]) for l2, h2, r2 in t2)
            if not ok:
                rep.violation("RW-inverse", "%s|%d..%d" % (n1, lo, hi), "%s maps %d..%d to %d..%d but %s does not map that range back (its table: %s): such constructor data does not survive a round trip" % (n1, lo, hi, ilo, ihi, n2, [(l2, h2 if h2 < (1 << 63) else "max", r2) for l2, h2, r2 in t2]), {})


def rule_rw_group(rep, F, inv):
    """a sequence that the writer splits over several map keys (Plutus scripts by language) and the reader re-assembles key by key comes
    back grouped: equality of the carrying type must not depend on the order across groups"""
    rep.rule("RW-group", "a field that a record-map writer emits under several keys (one key per group of its elements) and that the reader re-assembles group by group has an equality that is insensitive to the order across groups; a derived sequence equality makes a value whose elements are not already grouped differ from its own round trip")
    n = 0
    for T, wf in sorted(inv.ser.items()):
        r = inv.result(wf)
        if r["status"] != "ok":
            continue
        maps = [c for c in record_containers(r, "map") if c["keys"] and all(isinstance(k, int) for k in c["keys"])]
        per_field = {}
        for c in maps:
            for k, v in zip(c["keys"], c["vals"] + [None] * len(c["keys"])):
                names = set()
                if isinstance(v, str) and v.startswith("container@"):
                    ln = int(v.split("@")[1])
                    for c2 in r["containers"]:
                        if c2["line"] == ln and isinstance(c2["declared"], str):
                            names |= set(re.findall(r"[a-z_][a-z_0-9]*", c2["declared"]))
                names -= {"self", "some", "elems", "collect", "scripts", "view", "version", "N", "wit_set", "raw_parts", "tx_witnesses_set"}
                for nm in names:
                    per_field.setdefault(nm, set()).add(k)
        adt = F.adts.get(T)
        if not adt or adt["kind"] != "struct":
            continue
        ftypes = {f["name"]: f["ty"] for f in adt["variants"][0]["fields"]}
        for fld, keys in sorted(per_field.items()):
            if len(keys) < 2 or fld not in ftypes:
                continue
            n += 1
            rep.inst("RW-group")
            m = re.search(r"([A-Za-z_0-9:]+)>?$", ftypes[fld].replace("std::option::Option<", "").rstrip(">"))
            ety = m.group(1) if m else ftypes[fld]
            cands = [a for a in F.adts if a == ety or a.endswith("::" + ety.rsplit("::", 1)[-1])]
            if len(cands) != 1:
                continue
            eq = [im for im in F.impls if (im.get("trait") or "").startswith("std::cmp::PartialEq") and (im.get("self_adt") or im["self_ty"]) == cands[0]]
            order_sensitive = False
            if eq and eq[0].get("derive"):
                order_sensitive = True
            elif eq:
                mid = [m_["id"] for m_ in eq[0]["methods"] if m_["name"] == "eq"]
                if mid and mid[0] in F.fns:
                    tos = [(c.to or "") for c in F.calls(mid[0])]
                    seq_eq = any("Vec<" in t and t.endswith("PartialEq>::eq") or "std::vec::Vec" in t and "PartialEq" in t for t in tos)
                    norm = any(t.rsplit("::", 1)[-1] in ("sorted", "sort", "sort_by", "collect", "from_iter", "iter", "into_iter", "len", "contains", "all", "any") for t in tos)
                    order_sensitive = seq_eq and not norm
            if order_sensitive:
                rep.violation("RW-group", "%s|%s" % (short_ty(cands[0]), short_ty(T)), "%s.%s is written under keys %s (one key per group) and read back group by group, but %s compares its element sequence as is: a value holding e.g. [V2 script, V1 script] decodes as [V1, V2] and is not equal to the original although the bytes are identical" % (short_ty(T), fld, sorted(keys), short_ty(cands[0])), {})
    rep.floor("fields written under several keys", 1, n)


def rule_int_gate(rep, F):
    from ruleutil import gate_limit
    rep.rule("INT-gate", "Int::from_str builds an Int only on the edge where the magnitude is at most 2^64 - 1 (what the writer's `as u64` / nint argument can express): the premise of the audited casts in the Int writer")
    ids = F.by_key("Int::from_str")
    if len(ids) != 1:
        rep.lost("Int::from_str not found")
        return
    fn = F.fns[ids[0]]
    n = 0
    for bi, bb in enumerate(fn["bbs"]):
        for st in bb["st"]:
            if st[1] == "=" and st[3][0] == "agg" and st[3][2].endswith("numeric::int::Int"):
                n += 1
                rep.inst("INT-gate")
                lim, why, q = gate_limit(F, ids[0], bi)
                if lim is None:
                    rep.violation("INT-gate", "Int::from_str|ungated", "Int::from_str builds an Int that is not bounded by a comparison with a constant (%s): a parsed value beyond +-(2^64 - 1) is encoded as a different number" % why, {})
                elif lim > (1 << 64) - 1:
                    rep.violation("INT-gate", "Int::from_str|%d" % lim, "Int::from_str admits magnitudes up to %d; the writer can express at most 2^64 - 1 (a larger value is written truncated: Int(2^64) encodes as 0)" % lim, {})
    rep.floor("Int constructions in Int::from_str", 1, n)


def rule_group_nonempty(rep, F, inv):
    """grouped map writers (key written once per element of an inner collection): a key whose group is empty has no wire form"""
    import fieldflow as ff
    import mustpass as mp
    rep.rule("GROUP-nonempty", "a writer that emits a key once per element of the group stored under it (nested loops, key serialised in the inner one) cannot represent a key with an empty group: every insertion into such a map either is dominated by the non-empty edge of a test of the group's length or is followed on every path by a push into the group (so no value reachable through the API holds an empty group that the round trip would lose)")
    grouped = {}
    for T, fid in inv.ser.items():
        h = F.hir.get(fid)
        if not h:
            continue
        for a in H.walk(h["body"]):
            if a[0] != "for":
                continue
            names = H.pat_bindings(a[2])
            if len(names) != 2:
                continue
            k, v = names
            for b in H.walk(a[4]):
                if b[0] == "for" and ((H.path_str(H.strip(b[3])) or "").split(".")[0] == v):
                    if any(m[0] == "mcall" and m[2] == "serialize" and H.path_str(H.strip(m[4])) == k for m in H.walk(b[4])):
                        grouped[T] = fid
    rep.floor("grouped map writers", 1, len(grouped))
    for T in grouped:
        adt = [a for a in F.adts if a == T or a.endswith("::" + short_ty(T))]
        if len(adt) != 1:
            rep.lost("grouped writer type %s not found among ADTs" % T)
            continue
        flds = F.adts[adt[0]]["variants"][0]["fields"]
        mty = [f["ty"] for f in flds if "Map<" in f["ty"]]
        if len(mty) != 1:
            rep.lost("%s: no single map field" % T)
            continue
        m = re.search(r"Map<(.*), *([A-Za-z0-9_:]+)>$", mty[0])
        if not m:
            rep.lost("%s: map type %s not understood" % (T, mty[0]))
            continue
        gty = m.group(2)
        gshort = gty.rsplit("::", 1)[-1]
        n_sites = 0
        for fid, fn in F.fns.items():
            if "/tests/" in fn["file"] or F.is_derived(fid):
                continue
            calls = F.calls(fid)
            sites = []
            for c in calls:
                to = c.to or ""
                if not (to.endswith("Map::<K, V, S>::insert") or to.endswith("Map::<K, V, S>::entry") or to.endswith("Map::<K, V>::insert") or to.endswith("Map::<K, V>::entry")):
                    continue
                a0 = c.args[0] if c.args else None
                lty = ""
                if a0 and a0[0] in ("c", "m"):
                    li = int(a0[1].split("|")[0][1:])
                    lty = fn["locals"][li] if li < len(fn["locals"]) else ""
                if gty in lty and lty.rstrip(">").endswith(gty):
                    sites.append(c)
            if not sites:
                continue
            org = ff.Origins(F, fid)
            pd, _succ = mp.postdominators(fn)
            for c in sites:
                n_sites += 1
                rep.inst("GROUP-nonempty")
                ok = False
                if (c.to or "").endswith("::entry"):
                    for c2 in calls:
                        if re.search(r"%s::(add|add_move|push)$" % re.escape(gshort), c2.to or "") and c2.bb in pd.get(c.bb, set()):
                            ok = True
                else:
                    for s_bb, edge, cond in mp.dominating_guards(F, fid, c.bb, org):
                        if cond["kind"] == "bin" and cond["op"] in ("Eq", "Ne", "Gt", "Lt"):
                            side = cond["lhs"] + cond["rhs"]
                            if any(x.startswith("call:") and x.split("@")[0].endswith("%s::len" % gshort) for x in side) and "const" in side:
                                true_edge = (edge != "0") != cond["neg"]
                                if (cond["op"] == "Eq" and not true_edge) or (cond["op"] != "Eq" and true_edge):
                                    ok = True
                        if cond["kind"] == "call" and cond["callee"].endswith("is_empty") and any(("%s" % gshort) in x for a_ in cond["args"] for x in a_):
                            if (edge == "0") != cond["neg"]:
                                ok = True
                if not ok:
                    rep.violation("GROUP-nonempty", "%s|%s" % (short_ty(T), F.key(fid)), "%s puts a %s under a key of %s without ensuring the group is non-empty; the writer emits the key once per group element, so `insert(key, %s::new())` yields a value whose key vanishes on the wire: decode(encode(v)) != v (len 2 -> `a1 41 01 01` -> len 1)" % (F.key(fid), gshort, short_ty(T), gshort), {})
        rep.floor("insertions into grouped maps (%s)" % short_ty(T), 3, n_sites)


def rule_net_nibble(rep, F):
    """what the header cannot hold is not stored"""
    rep.rule("NET-nibble", "every construction of a Shelley address struct (BaseAddress, EnterpriseAddress, RewardAddress, PointerAddress) stores a network id that went through `& 0x0F`: the header byte has four bits for it and Address::to_bytes writes `network & 0xF`, so an unmasked 17 would be written as 1 and decode(encode(a)) != a (two reward accounts differing in the high bits even become a duplicate key)")
    n = 0
    for adt, a in sorted(F.adts.items()):
        short = adt.rsplit("::", 1)[-1]
        if short not in ("BaseAddress", "EnterpriseAddress", "RewardAddress", "PointerAddress") or a["kind"] != "struct":
            continue
        idx = [i for i, f in enumerate(a["variants"][0]["fields"]) if f["name"] == "network"]
        if not idx:
            rep.lost("%s has no network field" % short)
            continue
        for fid, fn in F.fns.items():
            if "/tests/" in fn["file"] or F.is_derived(fid):
                continue
            defs = None
            for bb in fn["bbs"]:
                if bb["c"]:
                    continue
                for st in bb["st"]:
                    if st[1] == "=" and st[3][0] == "agg" and st[3][2] == adt:
                        if defs is None:
                            defs = {}
                            for b2 in fn["bbs"]:
                                for s2 in b2["st"]:
                                    if s2[1] == "=":
                                        defs.setdefault(s2[2], []).append(s2[3])
                        n += 1
                        rep.inst("NET-nibble")
                        op = st[3][4][idx[0]]
                        ok = False
                        for _ in range(6):
                            if op[0] == "k":
                                ok = str(op[1]).split("_")[0].isdigit() and int(str(op[1]).split("_")[0]) <= 15
                                break
                            ds = defs.get(op[1], [])
                            if len(ds) != 1:
                                break
                            rv = ds[0]
                            if rv[0] == "bin" and rv[1] == "BitAnd" and any(o[0] == "k" and str(o[1]).split("_")[0] == "15" for o in (rv[2], rv[3])):
                                ok = True
                                break
                            if rv[0] == "use":
                                op = rv[1]
                                continue
                            break
                        if not ok:
                            rep.violation("NET-nibble", "%s|%s" % (short, F.key(fid)), "%s builds a %s with a network id that is not masked to four bits: %s::new(17, ..).to_bytes() writes network 1, from_bytes reads 1, and the decoded address differs from the original" % (F.key(fid), short, short), {})
    rep.floor("constructions of Shelley address structs", 4, n)


def check(rep, F, tier, replay=None):
    aud = common.load_table("e2_audited.json")
    inv = Inventory(F, thorough=(tier == "thorough"))
    inv.analyse_all()
    rule_wlen(rep, F, inv, aud)
    rule_rw_keys(rep, F, inv)
    rule_rw_arity(rep, F, inv)
    rule_rw_order(rep, F, inv)
    rule_rw_index(rep, F, inv)
    rule_rw_tag(rep, F, inv)
    rule_rw_group(rep, F, inv)
    rule_net_nibble(rep, F)
    rule_group_nonempty(rep, F, inv)
    rule_inverse_tables(rep, F)
    rule_pair(rep, F, inv, aud)
    rule_negint(rep, F)
    rule_int_gate(rep, F)
    rule_cast(rep, F, aud)
    from ruleutil import hash_eq_rule
    hash_eq_rule(rep, F)
    from ruleutil import ser_filter_rule
    ser_filter_rule(rep, F)
    import p_c11 as _c11
    _c11.hdr_rule(rep, F)  # addresses are written by hand (no cbor_event frames): their writer / reader agreement is the header table
    from ruleutil import adv_own_rule
    adv_own_rule(rep, F)
    from ruleutil import reader_order_rule
    reader_order_rule(rep, F)
    return rep.finish(EXPLANATION, ASSUMPTIONS, trusted_base=["csl-facts driver (HIR dump of the type-checked crate)", "cbor_event Serializer semantics (one call = one item)", "tables/e2_audited.json"])
