"""C17 — JSON forms: pairing clauses and schema symmetry (impl inventory, inverse-function table, schema-set evaluation)."""
import re

import facts
import hirq as H
from ruleutil import find_fn, fields_read

EXPLANATION = (
    "Pairing clauses decided from the impl inventory and resolved call sites: (PAIR-json) every type with to_json has from_json and "
    "vice versa; (PAIR-serde) every hand-written serde::Serialize impl has a hand-written serde::Deserialize sibling (a validating reader next to a derived writer is accepted for a newtype whose reader reads exactly the inner type); (INV) whatever "
    "string form the writer calls (to_hex, to_bech32, to_str, hex::encode, to_bytes, decode_*_to_json_str) the reader calls its "
    "registered inverse for the same type, and set-like types are rebuilt through from_vec (de-duplicating); (SCHEMA-const) the "
    "metadatum and datum serde impls pass the same schema constant to both directions; (SKIP-eq) for TransactionOutput the fields "
    "the derived JSON writer reads are exactly the fields the hand-written equality reads, so a skipped field cannot break "
    "`equal after round trip`; (HEX-sym) the conversion `0x-prefixed hex string <-> bytes` is evaluated over the finite set of "
    "schemas on both sides of the metadata and datum converters and must apply for exactly the same schemas (BasicConversions only) - "
    "otherwise JSON -> metadata -> JSON changes text that merely looks like hex. Not decided: the schema conversions at value level "
    "(nested maps, integer ranges, 64-byte limits), chunk helpers; from_json never panicking is C02."
)

INVERSE = [("to_hex", "from_hex"), ("to_bech32", "from_bech32"), ("to_str", "from_str"), ("hex::encode", "hex::decode"), ("to_bytes", "from_bytes"),
           ("decode_metadatum_to_json_str", "encode_json_str_to_metadatum"), ("decode_plutus_datum_to_json_str", "encode_json_str_to_plutus_datum")]


def impl_callees(F, im):
    out = set()
    for m in im["methods"]:
        fid = m["id"]
        for sub in [fid] + [c for c in F.fns if c.startswith(fid + "::{closure")]:
            if sub not in F.fns:
                continue
            for c in F.calls(sub):
                if c.to:
                    out.add(c.to)
    return out


def schema_consts(F, im, enum_name):
    """enum constants of `enum_name` passed as call arguments inside the impl's methods"""
    out = set()
    for m in im["methods"]:
        fid = m["id"]
        if fid not in F.fns:
            continue
        fn = F.fns[fid]
        for bb in fn["bbs"]:
            for st in bb["st"]:
                if st[1] == "=" and st[3][0] == "agg" and st[3][2].endswith(enum_name):
                    out.add(st[3][3])
            t = bb["t"]
            if t[1] == "call":
                for a in t[3]:
                    if a[0] == "k" and enum_name in (a[3] or ""):
                        out.add(a[1])
    return out


def cond_schemas(cond, variants, var="schema"):
    """cond: HIR binary Eq/Ne(schema, Enum::V) possibly negated -> set of variant names for which it is true; None if outside the domain"""
    c = H.strip(cond)
    if not H.is_node(c):
        return None
    if c[0] == "unary" and c[2] == "Not":
        s = cond_schemas(c[3], variants, var)
        return None if s is None else set(variants) - s
    if c[0] == "binary" and c[2] in ("Eq", "Ne"):
        a, b = H.path_str(c[3]), H.path_str(c[4])
        v = None
        if a == var and b and b.startswith("def:"):
            v = H.short(b[4:])
        if b == var and a and a.startswith("def:"):
            v = H.short(a[4:])
        if v in variants:
            return {v} if c[2] == "Eq" else set(variants) - {v}
    if c[0] == "binary" and c[2] in ("And", "Or"):
        x, y = cond_schemas(c[3], variants, var), cond_schemas(c[4], variants, var)
        if x is None or y is None:
            return None
        return (x & y) if c[2] == "And" else (x | y)
    return None


def schemas_reaching(body, pred, variants, var="schema", active=None):
    """set of schema variants under which some node satisfying pred is reached (if-conditions and matches on `schema`)."""
    active = set(variants) if active is None else active
    out = set()
    if not H.is_node(body):
        return out
    if pred(body):
        out |= active
    k = body[0]
    if k == "if" and not (H.is_node(body[2]) and body[2][0] == "letx"):
        s = cond_schemas(body[2], variants, var)
        if s is not None:
            out |= schemas_reaching(body[3], pred, variants, var, active & s)
            if body[4] is not None:
                out |= schemas_reaching(body[4], pred, variants, var, active - s)
            return out
    if k == "match" and H.path_str(body[2]) == var:
        rest = set(active)
        for pat, g, b in body[3]:
            vs = set()
            wild = False
            for alt in H.pat_alternatives(pat):
                v = H.pat_variant(alt)
                if v and H.short(v) in variants:
                    vs.add(H.short(v))
                else:
                    wild = True
            arm = (rest if wild else vs) & active
            out |= schemas_reaching(b, pred, variants, var, arm)
            rest -= vs
        return out
    if k == "match":
        # guards of the form `if schema != X`
        out |= schemas_reaching(body[2], pred, variants, var, active)
        for pat, g, b in body[3]:
            act = active
            if g is not None:
                s = cond_schemas(g, variants, var)
                if s is not None:
                    act = active & s
            out |= schemas_reaching(b, pred, variants, var, act)
        return out
    for c in H.children(body):
        out |= schemas_reaching(c, pred, variants, var, active)
    return out


def check(rep, F, tier, replay=None):
    # PAIR-json
    rep.rule("PAIR-json", "every type with to_json has from_json and vice versa")
    by_adt = {}
    for im in F.impls:
        if im["trait"] is None and im["self_adt"]:
            for m in im["methods"]:
                by_adt.setdefault(im["self_adt"], set()).add(m["name"])
    n = 0
    for adt, ms in sorted(by_adt.items()):
        if "to_json" in ms or "from_json" in ms:
            n += 1
            rep.inst("PAIR-json")
            if not ("to_json" in ms and "from_json" in ms):
                rep.violation("PAIR-json", H.short(adt), "%s has %s but not %s" % (H.short(adt), "to_json" if "to_json" in ms else "from_json", "from_json" if "to_json" in ms else "to_json"), {})
    rep.floor("types with a JSON form", 100, n)
    # PAIR-serde + INV
    rep.rule("PAIR-serde", "hand-written serde::Serialize <=> hand-written serde::Deserialize")
    rep.rule("INV", "the reader calls the registered inverse of every string form the writer calls")
    ser, de = {}, {}
    for im in F.impls:
        if im["trait"] in ("serde::Serialize", "serde::Deserialize") and not im["derive"]:
            (ser if im["trait"] == "serde::Serialize" else de)[im["self_ty"]] = im
    rep.floor("hand-written serde impl pairs", 40, len(ser))
    for t in sorted(set(ser) | set(de)):
        st = facts.short_ty(t)
        rep.inst("PAIR-serde")
        if t in de and t not in ser:
            # a validating reader next to a derived writer is symmetric when the type is a newtype: the derived writer emits the inner
            # value as is (serde newtype_struct), and the reader must read exactly that inner type
            a_ = F.adts.get(t) or F.adts.get(de[t].get("self_adt") or "")
            derived_ser = any(im2["trait"] == "serde::Serialize" and im2["derive"] and im2["self_ty"] == t for im2 in F.impls)
            if a_ and a_["kind"] == "struct" and len(a_["variants"][0]["fields"]) == 1 and derived_ser:
                inner = a_["variants"][0]["fields"][0]["ty"]
                cd0 = impl_callees(F, de[t])
                head = inner.split("<", 1)[0]
                if any(re.search(r"Deserialize<'de> for %s(<[^>]*>)?>::deserialize$" % re.escape(head), c) or (c.startswith("<%s" % head) and "Deserialize" in c and c.endswith("::deserialize")) for c in cd0):
                    continue
        if t not in ser or t not in de:
            rep.violation("PAIR-serde", st, "%s has a hand-written serde::%s but no hand-written %s" % (st, "Serialize" if t in ser else "Deserialize", "Deserialize" if t in ser else "Serialize"), {})
            continue
        cs, cd = impl_callees(F, ser[t]), impl_callees(F, de[t])
        for fwd, inv in INVERSE:
            used = [c for c in cs if c.endswith("::" + fwd) or c == fwd]
            if used:
                rep.inst("INV")
                if not any(c.endswith("::" + inv) or c == inv for c in cd):
                    rep.violation("INV", "%s|%s" % (st, fwd), "%s's JSON writer uses %s but its reader does not use %s: the JSON form would not read back" % (st, fwd, inv), {})
        # and the other way round
        for fwd, inv in INVERSE:
            used = [c for c in cd if c.endswith("::" + inv) or c == inv]
            if used and not any(c.endswith("::" + fwd) or c == fwd for c in cs):
                rep.inst("INV")
                rep.violation("INV", "%s|%s" % (st, inv), "%s's JSON reader uses %s but its writer does not use %s" % (st, inv, fwd), {})
    # SCHEMA-const
    rep.rule("SCHEMA-const", "metadatum / datum serde impls pass the same schema constant in both directions")
    for ty, enum in (("protocol_types::metadata::TransactionMetadatum", "MetadataJsonSchema"), ("protocol_types::plutus::plutus_data::PlutusData", "PlutusDatumSchema")):
        rep.inst("SCHEMA-const")
        if ty in ser and ty in de:
            a, b = schema_consts(F, ser[ty], enum), schema_consts(F, de[ty], enum)
            if not a or a != b:
                rep.violation("SCHEMA-const", H.short(ty), "%s: the JSON writer uses schema %s, the reader %s" % (H.short(ty), sorted(a), sorted(b)), {})
            else:
                rep.sample({"rule": "SCHEMA-const", "type": H.short(ty), "schema": sorted(a)})
        else:
            rep.lost("hand-written serde pair of %s" % ty)
    # SKIP-eq
    rep.rule("SKIP-eq", "TransactionOutput: fields read by the derived JSON writer == fields read by the hand-written PartialEq")
    TO = "TransactionOutput"
    adt = [a for a in F.adts if a == TO or a.endswith("::" + TO)]
    s_id = F.by_key("<TransactionOutput as serde::Serialize>::serialize")
    e_id = F.by_key("<TransactionOutput as std::cmp::PartialEq>::eq")
    if len(adt) == 1 and len(s_id) == 1 and len(e_id) == 1:
        rep.inst("SKIP-eq")
        fs = {f["name"] for f in F.adts[adt[0]]["variants"][0]["fields"]}
        sr = {f for (a, f) in fields_read(F, s_id[0], depth=0) if a == adt[0]} & fs
        er = {f for (a, f) in fields_read(F, e_id[0], depth=0) if a == adt[0]} & fs
        if sr != er:
            rep.violation("SKIP-eq", TO, "TransactionOutput: JSON writes %s but equality compares %s: a value could differ from its JSON round trip in %s" % (sorted(sr), sorted(er), sorted(sr ^ er)), {})
        else:
            rep.sample({"rule": "SKIP-eq", "fields": sorted(sr), "skipped": sorted(fs - sr)})
    else:
        rep.lost("TransactionOutput serde / PartialEq impls")
    # JSON-variant: every address variant a decoded structure can hold must be readable back from its JSON (bech32) form
    rep.rule("JSON-variant", "every AddrType variant the lenient decoder can produce (what a decoded output may hold, and what to_json prints as bech32) can also be produced by the parser behind the JSON reader (Address::from_bech32)")
    len_ids = F.by_key("Address::from_bytes_impl_unsafe")
    bech_ids = F.by_key("Address::from_bech32")
    if len(len_ids) != 1 or len(bech_ids) != 1:
        rep.lost("Address::from_bytes_impl_unsafe / from_bech32 not found")
    else:
        def variants_built(root):
            seen_, work_ = set(), [root]
            while work_:
                f_ = work_.pop()
                if f_ in seen_:
                    continue
                seen_.add(f_)
                for sub_ in [f_] + [c for c in F.fns if c.startswith(f_ + "::{closure")]:
                    for c_ in F.calls(sub_):
                        if c_.to in F.fns and c_.to not in seen_:
                            work_.append(c_.to)
            vs_ = set()
            for f_ in seen_:
                for sub_ in [f_] + [c for c in F.fns if c.startswith(f_ + "::{closure")]:
                    for bb_ in F.fns[sub_]["bbs"]:
                        for st_ in bb_["st"]:
                            if st_[1] == "=" and st_[3][0] == "agg" and st_[3][2].endswith("address::AddrType"):
                                vs_.add(st_[3][3])
            return vs_
        lv, bv = variants_built(len_ids[0]), variants_built(bech_ids[0])
        rep.inst("JSON-variant", max(1, len(lv)))
        rep.floor("address variants the lenient decoder can build", 5, len(lv))
        for v_ in sorted(lv - bv):
            rep.violation("JSON-variant", "Address|%s" % v_, "an Address of variant %s can sit in a decoded structure and is printed by to_json as bech32, but the parser behind from_json (Address::from_bech32) can never build that variant: to_json -> from_json fails for the address and for every structure containing it" % v_, {})
    # WRITE-eq: a hand-written JSON writer must not skip a field that equality depends on
    rep.rule("WRITE-eq", "every hand-written serde::Serialize impl of a struct reads (transitively, depth 3) every field that the type's equality compares: a field the writer skips comes back as a default and the value is no longer equal after to_json -> from_json")
    n_we = 0
    for im in F.impls:
        if (im.get("trait") or "") != "serde::Serialize" or im.get("derive") or "/tests/" in im.get("file", ""):
            continue
        adt_ = im.get("self_adt") or im["self_ty"]
        a_ = F.adts.get(adt_)
        if not a_ or a_["kind"] != "struct":
            continue
        fs_ = {f["name"] for f in a_["variants"][0]["fields"]}
        sid_ = [m["id"] for m in im["methods"] if m["name"] == "serialize"]
        if not sid_ or sid_[0] not in F.fns:
            continue
        rd_ = {f for (x, f) in fields_read(F, sid_[0], depth=3) if x == adt_} & fs_
        eqs_ = [i2 for i2 in F.impls if (i2.get("trait") or "").startswith("std::cmp::PartialEq") and (i2.get("self_adt") or i2["self_ty"]) == adt_]
        if not eqs_:
            continue
        if eqs_[0].get("derive"):
            eqf_ = set(fs_)
        else:
            eid_ = [m["id"] for m in eqs_[0]["methods"] if m["name"] == "eq"]
            if not eid_ or eid_[0] not in F.fns:
                continue
            eqf_ = {f for (x, f) in fields_read(F, eid_[0], depth=2) if x == adt_} & fs_
        n_we += 1
        rep.inst("WRITE-eq")
        for f_ in sorted(eqf_ - rd_):
            rep.violation("WRITE-eq", "%s|%s" % (H.short(adt_), f_), "%s: the hand-written JSON writer never reads `%s`, which equality compares: the field is lost in to_json and from_json restores a default" % (H.short(adt_), f_), {})
    rep.floor("hand-written JSON writers of structs compared with equality", 40, n_we)
    # HEX-sym
    rep.rule("HEX-sym", "`0x` hex string <-> bytes conversion applies under exactly the same schemas on the encode and the decode side")
    MV = ["NoConversions", "BasicConversions", "DetailedSchema"]
    enc = [k for k in F.hir if k.endswith("encode_json_value_to_metadatum::encode_string")]
    dec = F.by_key("protocol_types::metadata::decode_metadatum_to_json_value")
    if len(enc) == 1 and len(dec) == 1:
        rep.inst("HEX-sym")
        e_set = schemas_reaching(F.hir[enc[0]]["body"], lambda n: n[0] == "call" and (n[2] or "").endswith("hex_string_to_bytes"), MV)
        d_set = schemas_reaching(F.hir[dec[0]]["body"], lambda n: n[0] == "call" and (n[2] or "").endswith("bytes_to_hex_string"), MV)
        # decode side: restrict to the value conversion (Bytes arm), keys are converted by decode_key for non-detailed maps
        if e_set != {"BasicConversions"} or not (e_set <= d_set):
            rep.violation("HEX-sym", "metadata", "metadata JSON: text that looks like 0x-hex becomes bytes under %s but bytes become 0x-text under %s; the conversion must be confined to BasicConversions on the encode side and mirrored on the decode side" % (sorted(e_set), sorted(d_set)), {})
        else:
            rep.sample({"rule": "HEX-sym", "metadata_encode": sorted(e_set), "metadata_decode": sorted(d_set)})
    else:
        rep.lost("metadata encode_string / decode_metadatum_to_json_value")
    # datum side: `s[2..]` (strip the 0x prefix) must be confined to BasicConversions; under DetailedSchema a 0x prefix is an error
    PV = ["BasicConversions", "DetailedSchema"]
    enc = [k for k in F.hir if k.endswith("encode_json_value_to_plutus_datum::encode_string")]
    if len(enc) == 1:
        rep.inst("HEX-sym")
        e_set = schemas_reaching(F.hir[enc[0]]["body"], lambda n: n[0] == "index", PV)
        if not e_set and any(n_[0] == "mcall" and n_[2] in ("strip_prefix", "trim_start_matches", "split_at") for n_ in H.walk(F.hir[enc[0]]["body"])):
            rep.lost("plutus encode_string strips the 0x prefix in a shape HEX-sym does not read (strip_prefix / match on a tuple)")
        elif e_set != {"BasicConversions"}:
            rep.violation("HEX-sym", "plutus", "datum JSON: the 0x prefix is stripped and the rest decoded as bytes under %s (must be BasicConversions only; DetailedSchema carries bare hex in tagged objects)" % sorted(e_set), {})
        else:
            rep.sample({"rule": "HEX-sym", "datum_encode_strip_0x": sorted(e_set)})
    else:
        rep.lost("plutus encode_string")
    # JSON-cast: numbers cross the JSON boundary without narrowing
    import e3_arith as e3
    rep.rule("JSON-cast", "no narrowing or sign-changing integer cast in JSON conversion code (functions with `json` / `serde_value` in their path, serde impls): an integer outside the target range would be written as a different number and come back changed")
    n_fn = n_cast = 0
    for fid, fn in F.fns.items():
        if "/tests/" in fn["file"] or F.is_derived(fid):
            continue
        base = fid.split("::{closure")[0]
        it = (F.fns.get(base) or {}).get("impl_trait") or ""
        if not ("json" in base.lower() or "serde" in it or "serde_value" in base):
            continue
        n_fn += 1
        for bb in fn["bbs"]:
            if bb["c"]:
                continue
            for st in bb["st"]:
                if st[1] == "=" and st[3][0] == "cast" and st[3][1] == "IntToInt":
                    n_cast += 1
                    k = e3.cast_lossy(st[3][3], st[3][4]) if not e3.const_cast_exact(st[3][2], st[3][4]) else None
                    if k:
                        rep.inst("JSON-cast")
                        rep.violation("JSON-cast", "%s|%s->%s" % (F.key(base), st[3][3], st[3][4]), "%s converts %s to %s with `as` (%s) while producing / consuming JSON: values outside the target range change silently and do not survive the JSON round trip" % (F.key(base), st[3][3], st[3][4], k), {})
    rep.inst("JSON-cast", n_fn, nontrivial=False)
    rep.floor("JSON conversion functions inspected for lossy casts", 150, n_fn)
    # INT-parse: what counts as a decimal integer in JSON (typed Int values and, under BasicConversions, metadata map keys)
    rep.rule("INT-parse", "Int::from_str hands the WHOLE string to one std integer parser (str::parse::<i128>) and does no sign / prefix handling of its own: text that is not a canonical decimal integer stays text (e.g. the metadata key \"-+5\") instead of being read as a number")
    ids_ = F.by_key("Int::from_str")
    if len(ids_) != 1:
        rep.lost("Int::from_str not found")
    else:
        rep.inst("INT-parse")
        tos_ = set()
        parsers = []
        for sub_ in [ids_[0]] + [c for c in F.fns if c.startswith(ids_[0] + "::{closure")]:
            fn_ = F.fns[sub_]
            for c in F.calls(sub_):
                t_ = c.to or ""
                tos_.add(t_)
                if t_.endswith("<impl str>::parse") or t_.endswith("FromStr>::from_str") or "::from_str_radix" in t_:
                    parsers.append("%s%s" % (t_, fn_["bbs"][c.bb]["t"][2].get("ga") or ""))
        parsers = sorted(set(parsers))
        slicers = sorted(t.rsplit("::", 1)[-1] for t in tos_ if t.rsplit("::", 1)[-1] in ("strip_prefix", "strip_suffix", "trim", "trim_start", "trim_start_matches", "trim_matches", "split_at", "starts_with", "chars", "bytes", "as_bytes", "replace", "split", "find"))
        if len(parsers) == 1 and "i128" not in parsers[0] and not slicers:
            rep.lost("Int::from_str parses the whole string with %s instead of i128 (same shape, other parser): re-anchor INT-parse and re-read its grammar" % parsers[0])
        elif len(parsers) != 1 or slicers:
            rep.violation("INT-parse", "Int::from_str|%s|%s" % (",".join(H.short(p_) for p_ in parsers), ",".join(slicers)), "Int::from_str parses with %s%s: a second grammar is stacked on the std parser's own sign handling, so strings such as \"-+5\" are accepted as integers - a JSON metadata key changes from text to a number (and can collide with another key)" % ([H.short(p_) for p_ in parsers], " after handling the sign itself (%s)" % ", ".join(slicers) if slicers else ""), {})
    # JSON-fields: a derived JSON form carries every field the CBOR writer reads
    from ruleutil import fields_read as _fr
    rep.rule("JSON-fields", "for every struct whose JSON form is derived (serde) and that has a CBOR writer: each field the CBOR writer reads is also read by the derived JSON writer (no #[serde(skip)] on a field that decides the bytes) - otherwise from_json(to_json(v)) serialises to different CBOR")
    ser_, cb_ = {}, {}
    for im in F.impls:
        adt_ = im.get("self_adt") or im["self_ty"]
        if im.get("trait") == "serde::Serialize":
            ser_[adt_] = im
        if im.get("trait") == "cbor_event::Serialize":
            cb_[adt_] = im
    n_jf = 0
    for adt_ in sorted(set(ser_) & set(cb_)):
        if adt_ not in F.adts or F.adts[adt_]["kind"] != "struct" or not ser_[adt_].get("derive"):
            continue
        js_ = [m["id"] for m in ser_[adt_]["methods"] if m["name"] == "serialize"]
        cs_ = [m["id"] for m in cb_[adt_]["methods"] if m["name"] == "serialize"]
        if not js_ or not cs_ or js_[0] not in F.fns or cs_[0] not in F.fns:
            continue
        n_jf += 1
        rep.inst("JSON-fields")
        jf_ = {f for a, f in _fr(F, js_[0], depth=1) if a == adt_}
        cf_ = {f for a, f in _fr(F, cs_[0], depth=3) if a == adt_}
        for f_ in sorted(cf_ - jf_):
            rep.violation("JSON-fields", "%s.%s" % (adt_.rsplit("::", 1)[-1], f_), "the CBOR writer of %s reads `%s` but the derived JSON form does not carry it (skipped): a value whose `%s` was set through the API comes back from JSON with the default and serialises to different bytes (different hash)" % (adt_.rsplit("::", 1)[-1], f_, f_), {})
    rep.floor("structs with derived JSON form and CBOR writer", 80, n_jf)
    # KEY-int: an integer map key has a JSON key for every Int
    rep.rule("KEY-int", "the metadata -> JSON key conversion (decode_key) turns an Int key into its decimal string without a fallible narrowing to i64 (TryFrom<i128> for i64): JSON keys are strings, and every key the JSON -> metadata direction can produce (any decimal within the Int range) must convert back")
    dk_ = [f for f in F.fns if f.endswith("::decode_key") and "metadata" in f and "/tests/" not in F.fns[f]["file"]]
    if len(dk_) != 1:
        rep.lost("metadata decode_key not found (%d)" % len(dk_))
    else:
        rep.inst("KEY-int")
        narrow_ = sorted({(c.to or "") for sub in [dk_[0]] + [x for x in F.fns if x.startswith(dk_[0] + "::{closure")] for c in F.calls(sub) if re.search(r"TryFrom<i128> for i64>::try_from$", c.to or "") or re.search(r"TryFrom<i128>>::try_from$", c.to or "") and "i64" in (c.to or "") or re.search(r"<i128 as std::convert::TryInto<i64>>::try_into$", c.to or "")})
        if narrow_:
            rep.violation("KEY-int", "decode_key|%s" % ",".join(H.short(x) for x in narrow_)[:80], "decode_key narrows an Int key with %s: {\"-9223372036854775809\": 1} (BasicConversions) becomes the Int key -9223372036854775809, and converting back fails with `out of range integral type conversion attempted` - JSON in normal form does not survive JSON -> metadata -> JSON" % ", ".join(H.short(x) for x in narrow_), {})
    # KEY-sym: a key kind becomes a string under exactly the schemas under which a string key becomes that kind again
    rep.rule("KEY-sym", "metadata map keys under the two untagged schemas (NoConversions, BasicConversions): decode_key turns an Int key into its decimal string / a Bytes key into 0x-hex under exactly the schemas under which the JSON -> metadata direction parses an object key back into an Int (Int::from_str) / into bytes (hex_string_to_bytes). Under NoConversions every JSON key is read as text, so an Int or Bytes key must be refused there (documented: non-string keys not supported) - written as \"5\" it would come back as the text key \"5\" with different CBOR bytes")
    UV = ["NoConversions", "BasicConversions"]
    MV_ = ["NoConversions", "BasicConversions", "DetailedSchema"]
    dkh_ = [k for k in F.hir if k.endswith("decode_metadatum_to_json_value::decode_key")]
    ench_ = F.by_key("protocol_types::metadata::encode_json_value_to_metadatum")
    encs_ = [k for k in F.hir if k.endswith("encode_json_value_to_metadatum::encode_string")]
    if len(dkh_) != 1 or len(ench_) != 1 or ench_[0] not in F.hir or len(encs_) != 1:
        rep.lost("metadata decode_key / encode_json_value_to_metadatum HIR not found")
    else:
        mt_ = [n for n in H.walk(F.hir[dkh_[0]]["body"]) if n[0] == "match"]
        dec_sets = {}
        for m_ in mt_[:1]:
            for pat, g, b in m_[3]:
                for alt in H.pat_alternatives(pat):
                    v = H.pat_variant(alt)
                    if not v:
                        continue
                    act = set(MV_)
                    if g is not None:
                        cs_ = cond_schemas(g, MV_)
                        if cs_ is None:
                            rep.lost("decode_key: guard of the %s arm is outside the schema domain" % H.short(v))
                            continue
                        act = cs_
                    is_err = H.is_node(H.strip(b)) and H.strip(b)[0] == "call" and str(H.strip(b)[2] or "").endswith("Err")
                    if not is_err:
                        dec_sets.setdefault(H.short(v), set()).update(act)
        e_int = schemas_reaching(F.hir[ench_[0]]["body"], lambda n: n[0] == "call" and (n[2] or "").endswith("Int::from_str"), MV_) & set(UV)
        e_hex_in_string = schemas_reaching(F.hir[encs_[0]]["body"], lambda n: n[0] == "call" and (n[2] or "").endswith("hex_string_to_bytes"), MV_) & set(UV)
        if "Text" not in dec_sets or not e_int:
            rep.lost("decode_key arms / key parser not recognised (decode arms: %s, Int::from_str under %s)" % (sorted(dec_sets), sorted(e_int)))
        else:
            for kind, enc_set in (("Int", e_int), ("Bytes", e_hex_in_string)):
                rep.inst("KEY-sym")
                d_ = dec_sets.get(kind, set()) & set(UV)
                if d_ != enc_set:
                    rep.violation("KEY-sym", "metadata|%s|%s" % (kind, ",".join(sorted(d_))), "decode_key writes a %s map key as a string under %s, but a JSON object key is read back as %s only under %s: under %s the metadatum -> JSON -> metadatum round trip succeeds and returns a *text* key (different value, different CBOR) instead of failing" % (kind, sorted(d_), kind, sorted(enc_set), sorted(d_ - enc_set) or sorted(enc_set - d_)), {})
    # CONV-iter: converters do not swallow elements or errors
    rep.rule("CONV-iter", "the metadata / datum JSON converters and the chunked-bytes helpers (protocol_types/metadata.rs, protocol_types/plutus/plutus_data.rs) use no element- or error-dropping adaptor (filter / filter_map / flat_map / flatten over fallible items, take / skip / find, Result::ok / unwrap_or*) outside the audited inventory: an element outside the schema produces an error, it is not skipped")
    CONV_OK = {
        ("protocol_types::metadata::hex_string_to_bytes", "ok"): "the Option result IS the verdict: None means `not a hex string`, the caller then keeps the text",
        ("protocol_types::plutus::plutus_data::decode_plutus_datum_to_json_value", "ok"): "tries to read bytes as UTF-8 for the basic schema; failure falls back to the hex form, nothing is dropped",
        ("protocol_types::plutus::plutus_data::decode_plutus_datum_to_json_value", "unwrap_or_else"): "the fallback of the line above: hex form",
    }
    DROP_ = re.compile(r"(Iterator::(nth|take|skip|step_by|take_while|skip_while|find|find_map|filter|filter_map|flat_map|flatten|last|position|next_back|rfind|reduce|map_while|scan)$|Result::<T, E>::(ok|unwrap_or|unwrap_or_default|unwrap_or_else)$|Option::<T>::(unwrap_or|unwrap_or_default|unwrap_or_else)$)")
    got_ = {}
    n_fn = 0
    for fid_, fn_ in F.fns.items():
        if "/tests/" in fn_["file"] or F.is_derived(fid_):
            continue
        if not (fn_["file"].endswith("protocol_types/metadata.rs") or fn_["file"].endswith("protocol_types/plutus/plutus_data.rs")):
            continue
        if fid_.split("::{closure")[0].rsplit("::", 1)[-1].startswith("deduplicated_"):
            continue  # the set-form helpers drop repeats by design (judged by DEDUP-total / SIB-dedup), they are not converters
        n_fn += 1
        base_ = F.key(fid_.split("::{closure")[0])
        for c in F.calls(fid_):
            if DROP_.search(c.to or ""):
                k_ = (base_, (c.to or "").rsplit("::", 1)[-1])
                got_[k_] = got_.get(k_, 0) + 1
    rep.inst("CONV-iter", n_fn)
    for k_, n_ in sorted(got_.items()):
        if k_ in CONV_OK and n_ <= 1:
            rep.allow("CONV-iter", n_)
            continue
        rep.violation("CONV-iter", "%s|%s" % k_, "%s uses `%s` (%d site(s)) on fallible / partial items: elements that are outside the schema are skipped instead of producing an error - e.g. decode_arbitrary_bytes_from_metadatum([bytes, text, bytes]) returns the concatenation of the byte chunks" % (k_[0], k_[1], n_), {})
    rep.floor("converter functions inspected", 60, n_fn)
    from ruleutil import int_range_rule
    int_range_rule(rep, F)
    from ruleutil import json_filter_rule
    json_filter_rule(rep, F)
    # FILL-uncond: the helpers the JSON readers fill a Plutus map with add on every path
    from ruleutil import hir_must as _hm
    rep.rule("FILL-uncond", "PlutusMap::add_value / add_value_move (the helpers the JSON -> datum converters and the CBOR reader fill a Plutus map with) add the value to the key's value list on every path (HIR must-analysis): a Plutus map may hold the same key / value pair twice (its CBOR writer emits both), so a helper that skips a value that is `already there` makes detailed-schema JSON read back a different datum with different bytes and a different hash")
    n_fu = 0
    for key__ in ("PlutusMap::add_value", "PlutusMap::add_value_move"):
        ids__ = F.by_key(key__)
        if len(ids__) != 1 or ids__[0] not in F.hir:
            rep.lost("%s not found" % key__)
            continue
        n_fu += 1
        rep.inst("FILL-uncond")
        if not _hm(F.hir[ids__[0]]["body"], lambda x: x[0] == "mcall" and x[2] in ("add", "add_move", "push")):
            rep.violation("FILL-uncond", key__, "%s can return without adding the value it was given: a repeated key / value pair of a Plutus map is dropped when the datum is read from (detailed-schema) JSON" % key__, {})
    return rep.finish(
        EXPLANATION,
        ["serde derive output is a faithful field-by-field form", "the registered inverse pairs are inverse functions (their own round trips are C01/C11/C14 clauses)"],
        ["rustc impl inventory, MIR call sites, HIR (csl-facts)"],
    )
